// Package c11 checks property C11: PROPFIND answers of the WebDAV, CalDAV and
// CardDAV servers and of the principal helper account for every requested
// property exactly once per resource and respect Depth.
//
// The monitor drives the real handlers in-process, reads every answer with the
// harness's own strict multistatus reader (davx over xmltree) and compares it
// with a small reference model built from the *specification of the double*
// (the world below), never from anything the library computed.
package c11

import (
	"context"
	"fmt"
	"net/http"
	"os"
	"path/filepath"
	"sort"
	"strconv"
	"strings"
	"time"

	"github.com/emersion/go-ical"
	"github.com/emersion/go-vcard"
	"github.com/emersion/go-webdav"
	"github.com/emersion/go-webdav/caldav"
	"github.com/emersion/go-webdav/carddav"
	"github.com/emersion/go-webdav/verifharness/davx"
	"github.com/emersion/go-webdav/verifharness/doubles"
	"github.com/emersion/go-webdav/verifharness/xmltree"
)

const (
	nsDAV  = "DAV:"
	nsCal  = "urn:ietf:params:xml:ns:caldav"
	nsCard = "urn:ietf:params:xml:ns:carddav"
)

// Servers (first field of a finding key).
const (
	srvLocal     = "fs-local"
	srvMem       = "fs-mem"
	srvCal       = "caldav"
	srvCard      = "carddav"
	srvPrincipal = "principal"
)

// --- JSON-able specification of one world ------------------------------------

// fileSpec is one entry of a file-server world.
type fileSpec struct {
	Path string `json:"path"` // without trailing slash ("/" for the root)
	Dir  bool   `json:"dir,omitempty"`
	// Content length: for fs-local the file holds Size bytes; for fs-mem Size
	// is what the backend reports.
	Size int64  `json:"size,omitempty"`
	MIME string `json:"mime,omitempty"` // fs-mem only
	ETag string `json:"etag,omitempty"` // fs-mem only
	// the modification time (fs-local: a file always has one)
	modSpec
	// Slash: the in-memory backend reports this collection with a trailing
	// slash (fs-mem only).
	Slash bool `json:"slash,omitempty"`
	// Link: this entry is a symbolic link with the given relative target
	// (fs-local only). LinkKind: "dir", "file" or "dangling".
	Link     string `json:"link,omitempty"`
	LinkKind string `json:"link_kind,omitempty"`
}

// modSpec is the modification time a backend reports for a resource. The
// resource has one unless the backend reports the zero time.Time; every other
// instant - before, at and after the Unix epoch, in any zone, with or without
// a sub-second part or a monotonic clock reading - is a modification time.
type modSpec struct {
	// ModUnix: seconds since the Unix epoch. ModUnix == 0 without ModSet is
	// "no modification time" (the zero time.Time).
	ModUnix int64 `json:"mod_unix,omitempty"`
	// ModSet: ModUnix is the modification time even when it is 0.
	ModSet bool `json:"mod_set,omitempty"`
	// ModNsec: sub-second part, 0 <= ModNsec < 1e9.
	ModNsec int64 `json:"mod_nsec,omitempty"`
	// ModZone: the backend reports the time in a zone this many seconds east
	// of UTC (doubles only; a file system reports local time).
	ModZone int `json:"mod_zone,omitempty"`
	// ModMono: the reported time.Time carries a monotonic clock reading, as
	// every time derived from time.Now() does (doubles only).
	ModMono bool `json:"mod_mono,omitempty"`
}

// has: the backend reports a modification time.
func (m modSpec) has() bool { return m.ModSet || m.ModUnix != 0 }

// instant is the time.Time the double reports.
func (m modSpec) instant() time.Time {
	var t time.Time
	if m.has() {
		t = time.Unix(m.ModUnix, m.ModNsec)
	}
	if m.ModZone != 0 {
		t = t.In(time.FixedZone("", m.ModZone))
	}
	if m.ModMono && m.has() {
		// The same instant with a monotonic reading: derived from the clock by
		// Add. The clock only lends the reading, the instant is m's.
		now := time.Now()
		if u := now.Add(t.Sub(now)); u.Equal(t) && u.Unix() == t.Unix() && u.Nanosecond() == t.Nanosecond() {
			t = u
		}
	}
	return t
}

// class abstracts the time for the evidence tables.
func (m modSpec) class() string {
	var c string
	switch {
	case !m.has():
		c = "none(zero time.Time)"
	case m.ModUnix == 0:
		c = "unix-epoch"
	case m.ModUnix < 0:
		c = "before-1970"
	case m.ModUnix >= 1<<31:
		c = "after-2038"
	case m.ModUnix < 1000000000:
		c = "1970..2001"
	default:
		c = "2001..2038"
	}
	if m.ModNsec != 0 {
		c += " +nsec"
	}
	if m.ModZone != 0 {
		c += " +zone"
	}
	if m.ModMono {
		c += " +monotonic"
	}
	return c
}

// lastModified is the value getlastmodified owes (an HTTP-date, whole seconds, GMT).
func (m modSpec) lastModified() string { return httpDate(m.ModUnix) }

type collSpec struct {
	Path    string   `json:"path"`
	Name    string   `json:"name,omitempty"`
	Desc    string   `json:"desc,omitempty"`
	MaxSize int64    `json:"max_size,omitempty"`
	CompSet []string `json:"comp_set,omitempty"` // CalDAV only; nil = backend does not say
}

type objSpec struct {
	Path string `json:"path"`
	ETag string `json:"etag,omitempty"`
	modSpec
	Len int64 `json:"len,omitempty"`
	// Unenc != 0: the backend holds a calendar the iCalendar encoder refuses
	// (1: VEVENT without DTSTAMP, 2: VCALENDAR without PRODID). The value of
	// calendar-data cannot be produced for it: 200 and 5xx are both left open
	// for that one property, everything else is owed as usual.
	Unenc int `json:"unenc,omitempty"`
	// Ctl != 0: a text value of the object holds a character XML 1.0 forbids
	// (1: U+000B as Outlook-style exports put it into notes, 2: U+0001 and
	// U+001F, 3: a byte sequence that is not UTF-8). How it is represented is
	// the server's business; the answer must stay well-formed XML.
	Ctl int `json:"ctl,omitempty"`
}

type davSpec struct {
	Prefix    string     `json:"prefix"`    // Handler.Prefix as configured
	Root      string     `json:"root"`      // request path of the root
	Principal string     `json:"principal"` // backend's principal path
	HomeSet   string     `json:"home_set"`
	Colls     []collSpec `json:"colls"`
	Objs      []objSpec  `json:"objs"`
}

type principalSpec struct {
	Path     string `json:"path"` // request path
	CUP      string `json:"cup"`  // ServePrincipalOptions.CurrentUserPrincipalPath
	CalHome  string `json:"cal_home,omitempty"`
	CardHome string `json:"card_home,omitempty"`
	// a second home set of the same kind (the options take a list): the
	// property is still one property; which href(s) it holds is left open
	CalHome2  string `json:"cal_home2,omitempty"`
	CardHome2 string `json:"card_home2,omitempty"`
}

type world struct {
	Server string         `json:"server"`
	Files  []fileSpec     `json:"files,omitempty"`
	Dav    *davSpec       `json:"dav,omitempty"`
	Princ  *principalSpec `json:"princ,omitempty"`
	// RootSpelling (fs-local): how the served directory is configured: "" (its
	// absolute path), "dot" ("." with the directory as working directory, the
	// default of cmd/webdav-server), "dot-slash", "relative" (its name, from
	// its parent), "trailing-slash".
	RootSpelling string `json:"root_spelling,omitempty"`
}

// --- reference model ------------------------------------------------------------

// valueCheck decides whether a property element carries the expected value;
// nil means "presence only".
type valueCheck func(n *xmltree.Node) bool

// resource is one exposed resource of the world as the model sees it.
type resource struct {
	Path   string // the backend's own path = the expected href
	Level  string // root, dir, empty-dir, file, principal, home-set, collection, object
	Parent int    // index of the parent resource, -1 for the top
	Coll   bool
	// Required: properties the resource has according to the double's content
	// (a lower bound of what propname must list), with their expected values.
	Required map[string]valueCheck
	// Values: properties whose presence the model does not demand (whether a
	// server exposes them through PROPFIND is its choice) but whose value, when
	// answered under 200, is determined by the double's content.
	Values map[string]valueCheck
	// Link: a symbolic link. It is a directory entry of its collection and so
	// in scope as a member, but how it is described (file or collection,
	// which properties and values) is left open: no reference is taken.
	Link bool
	// LinkDir: the link points to a directory; answers below it are
	// don't-care at Depth infinity.
	LinkDir bool
	// Optional: a dangling link may be listed or omitted.
	Optional bool
	// OpenStatus: properties whose value the server cannot produce (see
	// objSpec.Unenc): answered under 200 or under a 5xx status.
	OpenStatus map[string]bool
}

type reference struct {
	// selfOnly: no Depth-0 reference exists for this resource (symbolic
	// link); only the answer's own consistency is judged.
	selfOnly bool
	ok       bool
	names    map[string]bool   // the resource's propname answer
	values   map[string]string // canonical value per name from the Depth-0 allprop answer
}

type env struct {
	W       world
	h       http.Handler
	res     []*resource
	byPath  map[string]int // normalised href path -> resource index
	refs    map[int]*reference
	cleanup func()
	addr    string // TCP address of the wire server, started on demand
	// modOff (fs-local): files whose modification time the file system did not
	// store as specified (out of its range): only its presence is owed.
	modOff map[string]bool
}

func (e *env) close() {
	if e.cleanup != nil {
		e.cleanup()
	}
}

func name(space, local string) string { return "{" + space + "}" + local }

func textIs(want string) valueCheck {
	return func(n *xmltree.Node) bool { return len(n.Elems()) == 0 && n.TextContent() == want }
}

// hrefIs: the property holds exactly one {DAV:}href child whose decoded path is want.
func hrefIs(want string) valueCheck {
	return func(n *xmltree.Node) bool {
		hs := n.All(nsDAV, "href")
		if len(hs) != 1 || len(n.Elems()) != 1 {
			return false
		}
		p, err := davx.HrefPath(hs[0].TextContent())
		return err == nil && p == want
	}
}

// typesAre: resourcetype holds exactly the given element names (any order).
func typesAre(want ...string) valueCheck {
	return func(n *xmltree.Node) bool {
		var got []string
		for _, c := range n.Elems() {
			got = append(got, c.Name())
		}
		w := append([]string(nil), want...)
		sort.Strings(got)
		sort.Strings(w)
		return strings.Join(got, " ") == strings.Join(w, " ") && !n.HasNonSpaceText()
	}
}

// compsAre: exactly one CALDAV:comp child per given component name (any order).
func compsAre(want []string) valueCheck {
	return func(n *xmltree.Node) bool {
		var got []string
		for _, c := range n.Elems() {
			v, ok := c.Attr("name")
			if !ok || !c.Is(nsCal, "comp") {
				return false
			}
			got = append(got, v)
		}
		w := append([]string(nil), want...)
		sort.Strings(got)
		sort.Strings(w)
		return strings.Join(got, "\x00") == strings.Join(w, "\x00") && !n.HasNonSpaceText()
	}
}

// mediaTypeIs: the text is the given media type, parameters aside.
func mediaTypeIs(want string) valueCheck {
	return func(n *xmltree.Node) bool {
		if len(n.Elems()) != 0 {
			return false
		}
		t := n.TextContent()
		if i := strings.IndexByte(t, ';'); i >= 0 {
			t = t[:i]
		}
		return strings.EqualFold(strings.TrimSpace(t), want)
	}
}

// dataOf: the text is the object with the given UID (and no other object's):
// it holds the line "UID:<uid>".
func dataOf(uid string) valueCheck {
	return func(n *xmltree.Node) bool {
		if len(n.Elems()) != 0 {
			return false
		}
		for _, l := range strings.FieldsFunc(n.TextContent(), func(r rune) bool { return r == '\r' || r == '\n' }) {
			if l == "UID:"+uid {
				return true
			}
		}
		return false
	}
}

func httpDate(unix int64) string {
	return time.Unix(unix, 0).UTC().Format("Mon, 02 Jan 2006 15:04:05 GMT")
}

// removeDotSegments is RFC 3986 section 5.2.4 for absolute paths.
func removeDotSegments(p string) string {
	if !strings.Contains(p, "/.") {
		return p
	}
	segs := strings.Split(p, "/")
	var out []string
	for i, s := range segs {
		switch s {
		case ".":
			if i == len(segs)-1 {
				out = append(out, "")
			}
		case "..":
			if len(out) > 1 {
				out = out[:len(out)-1]
			}
			if i == len(segs)-1 {
				out = append(out, "")
			}
		default:
			out = append(out, s)
		}
	}
	r := strings.Join(out, "/")
	if !strings.HasPrefix(r, "/") {
		r = "/" + r
	}
	return r
}

func (e *env) fileServer() bool { return e.W.Server == srvLocal || e.W.Server == srvMem }

// lookup maps the decoded path of an href to a resource index (-1: none).
// File servers: dot segments are resolved and a collection may carry or lack
// the trailing slash. Elsewhere the backend's own path is required.
func (e *env) lookup(p string) int {
	if !e.fileServer() {
		if i, ok := e.byPath[p]; ok {
			return i
		}
		return -1
	}
	q := removeDotSegments(p)
	hadSlash := false
	if q != "/" && strings.HasSuffix(q, "/") {
		q = strings.TrimSuffix(q, "/")
		hadSlash = true
	}
	i, ok := e.byPath[q]
	if !ok {
		for _, r := range e.res {
			if r.LinkDir && strings.HasPrefix(q, r.Path+"/") {
				return belowLink
			}
		}
		return -1
	}
	if hadSlash && !e.res[i].Coll && !e.res[i].LinkDir {
		return -1
	}
	return i
}

// belowLink is lookup's answer for a path below a link to a directory.
const belowLink = -2

func (e *env) children(i int) []int {
	var l []int
	for j, r := range e.res {
		if r.Parent == i {
			l = append(l, j)
		}
	}
	return l
}

// scope computes the resources in scope of a PROPFIND on resource i.
// depth: "0", "1" or "infinity" (an absent header is infinity).
func (e *env) scope(i int, depth string) map[int]bool {
	s := map[int]bool{i: true}
	switch depth {
	case "0":
	case "1":
		for _, j := range e.children(i) {
			s[j] = true
		}
	default:
		var rec func(int)
		rec = func(k int) {
			for _, j := range e.children(k) {
				s[j] = true
				rec(j)
			}
		}
		rec(i)
	}
	return s
}

// --- building the doubles from a specification ---------------------------------

func buildEnv(w world, workDir string) (*env, error) {
	e := &env{W: w, byPath: map[string]int{}, refs: map[int]*reference{}}
	switch w.Server {
	case srvLocal:
		return e, e.buildLocal(workDir)
	case srvMem:
		return e, e.buildMem()
	case srvCal, srvCard:
		return e, e.buildDav()
	case srvPrincipal:
		return e, e.buildPrincipal()
	}
	return nil, fmt.Errorf("unknown server %q", w.Server)
}

func parentPath(p string) string {
	i := strings.LastIndexByte(p, '/')
	if i <= 0 {
		return "/"
	}
	return p[:i]
}

func (e *env) addFileResources(local bool) {
	files := e.W.Files
	hasChild := map[string]bool{}
	for _, f := range files {
		if f.Path != "/" {
			hasChild[parentPath(f.Path)] = true
		}
	}
	idx := map[string]int{}
	for _, f := range files {
		r := &resource{Path: f.Path, Parent: -1, Coll: f.Dir, Required: map[string]valueCheck{}}
		if f.Path != "/" {
			r.Parent = idx[parentPath(f.Path)]
		}
		if f.Link != "" {
			r.Link = true
			r.Level = "symlink-" + f.LinkKind
			r.LinkDir = f.LinkKind == "dir"
			r.Optional = f.LinkKind == "dangling"
			r.Coll = false
			idx[f.Path] = len(e.res)
			e.byPath[f.Path] = len(e.res)
			e.res = append(e.res, r)
			continue
		}
		switch {
		case f.Path == "/":
			r.Level = "root"
		case f.Dir && !hasChild[f.Path]:
			r.Level = "empty-dir"
		case f.Dir:
			r.Level = "dir"
		default:
			r.Level = "file"
		}
		if f.Dir {
			r.Required[name(nsDAV, "resourcetype")] = typesAre(name(nsDAV, "collection"))
			if f.Slash && f.Path != "/" {
				r.Path = f.Path + "/"
			}
		} else {
			r.Required[name(nsDAV, "resourcetype")] = typesAre()
			r.Required[name(nsDAV, "getcontentlength")] = textIs(strconv.FormatInt(f.Size, 10))
			switch {
			case local && e.modOff[f.Path]:
				// the file system could not store the instant: it has a
				// modification time, which one is its own business
				r.Required[name(nsDAV, "getlastmodified")] = nil
			case local || f.has():
				r.Required[name(nsDAV, "getlastmodified")] = textIs(f.lastModified())
			}
			if local {
				r.Required[name(nsDAV, "getetag")] = nil
			} else {
				if f.MIME != "" {
					r.Required[name(nsDAV, "getcontenttype")] = textIs(f.MIME)
				}
				if f.ETag != "" {
					r.Required[name(nsDAV, "getetag")] = textIs(`"` + f.ETag + `"`)
				}
			}
		}
		idx[f.Path] = len(e.res)
		e.byPath[f.Path] = len(e.res)
		e.res = append(e.res, r)
	}
}

func (e *env) buildLocal(workDir string) error {
	root, err := os.MkdirTemp(workDir, "c11-fs-")
	if err != nil {
		return err
	}
	e.cleanup = func() { os.RemoveAll(root) }
	// Files are listed parents first.
	for _, f := range e.W.Files {
		p := filepath.Join(root, filepath.FromSlash(f.Path))
		if f.Link != "" {
			if err := os.Symlink(filepath.FromSlash(f.Link), p); err != nil {
				return err
			}
			continue
		}
		if f.Dir {
			if f.Path != "/" {
				if err := os.Mkdir(p, 0755); err != nil {
					return err
				}
			}
			continue
		}
		if err := os.WriteFile(p, []byte(strings.Repeat("x", int(f.Size))), 0644); err != nil {
			return err
		}
		t := time.Unix(f.ModUnix, f.ModNsec)
		if err := os.Chtimes(p, t, t); err != nil {
			return err
		}
		if st, err := os.Lstat(p); err != nil || st.ModTime().Unix() != f.ModUnix {
			if e.modOff == nil {
				e.modOff = map[string]bool{}
			}
			e.modOff[f.Path] = true
		}
	}
	e.addFileResources(true)
	spelled, chdir := root, ""
	switch e.W.RootSpelling {
	case "dot":
		spelled, chdir = ".", root
	case "dot-slash":
		spelled, chdir = "./", root
	case "relative":
		spelled, chdir = filepath.Base(root), filepath.Dir(root)
	case "trailing-slash":
		spelled = root + "/"
	}
	if chdir != "" {
		cwd, err := os.Getwd()
		if err != nil || os.Chdir(chdir) != nil {
			spelled = root
		} else {
			prev := e.cleanup
			e.cleanup = func() { os.Chdir(cwd); prev() }
		}
	}
	e.h = &webdav.Handler{FileSystem: webdav.LocalFileSystem(spelled)}
	return nil
}

func (e *env) buildMem() error {
	fs := doubles.NewMemFS()
	for _, f := range e.W.Files {
		if f.Path == "/" {
			continue
		}
		info := webdav.FileInfo{Path: f.Path, Size: f.Size, IsDir: f.Dir, MIMEType: f.MIME, ETag: f.ETag}
		if f.Dir && f.Slash {
			info.Path = f.Path + "/"
		}
		info.ModTime = f.instant()
		fs.Put(info, nil)
	}
	e.addFileResources(false)
	e.h = &webdav.Handler{FileSystem: fs}
	return nil
}

func makeCalendar(uid string) *ical.Calendar {
	cal := ical.NewCalendar()
	cal.Props.SetText(ical.PropVersion, "2.0")
	cal.Props.SetText(ical.PropProductID, "-//verif//EN")
	ev := ical.NewComponent(ical.CompEvent)
	ev.Props.SetText(ical.PropUID, uid)
	ev.Props.SetDateTime(ical.PropDateTimeStamp, time.Unix(1600000000, 0).UTC())
	ev.Props.SetDateTime(ical.PropDateTimeStart, time.Unix(1600003600, 0).UTC())
	ev.Props.SetText(ical.PropSummary, "s "+uid)
	cal.Children = append(cal.Children, ev)
	return cal
}

func ctlText(k int) string {
	switch k {
	case 1:
		return "line one\x0bline two"
	case 2:
		return "a\x01b\x1fc"
	}
	return "not utf-8: \xff\xfe \xc3"
}

// objUID is the UID of the i-th object of a CalDAV/CardDAV world.
func objUID(i int) string { return fmt.Sprintf("uid-%d", i) }

func makeCard(uid string) vcard.Card {
	c := vcard.Card{}
	c.SetValue(vcard.FieldVersion, "3.0")
	c.SetValue(vcard.FieldFormattedName, "N "+uid)
	c.SetValue(vcard.FieldUID, uid)
	return c
}

func (e *env) buildDav() error {
	d := e.W.Dav
	cal := e.W.Server == srvCal
	add := func(r *resource) int {
		e.byPath[r.Path] = len(e.res)
		e.res = append(e.res, r)
		return len(e.res) - 1
	}
	cup := hrefIs(d.Principal)
	coll := name(nsDAV, "collection")
	homeName, homeNS := "addressbook-home-set", nsCard
	if cal {
		homeName, homeNS = "calendar-home-set", nsCal
	}
	// The root is identified by the request path; it is not put into byPath
	// under the principal's path (the oracle treats the root's label apart).
	root := add(&resource{Path: d.Root, Level: "root", Parent: -1, Coll: true, Required: map[string]valueCheck{
		name(nsDAV, "resourcetype"):           typesAre(coll),
		name(nsDAV, "current-user-principal"): cup,
	}})
	pr := add(&resource{Path: d.Principal, Level: "principal", Parent: root, Coll: true, Required: map[string]valueCheck{
		name(nsDAV, "resourcetype"):           typesAre(coll),
		name(nsDAV, "current-user-principal"): cup,
		name(homeNS, homeName):                hrefIs(d.HomeSet),
	}})
	hs := add(&resource{Path: d.HomeSet, Level: "home-set", Parent: pr, Coll: true, Required: map[string]valueCheck{
		name(nsDAV, "resourcetype"): typesAre(coll),
	}})
	collIdx := map[string]int{}
	for _, c := range d.Colls {
		req := map[string]valueCheck{}
		ns := nsCard
		if cal {
			ns = nsCal
			req[name(nsDAV, "resourcetype")] = typesAre(coll, name(nsCal, "calendar"))
		} else {
			req[name(nsDAV, "resourcetype")] = typesAre(coll, name(nsCard, "addressbook"))
		}
		if c.Name != "" {
			req[name(nsDAV, "displayname")] = textIs(c.Name)
		}
		if c.Desc != "" {
			if cal {
				req[name(ns, "calendar-description")] = textIs(c.Desc)
			} else {
				req[name(ns, "addressbook-description")] = textIs(c.Desc)
			}
		}
		if c.MaxSize > 0 {
			req[name(ns, "max-resource-size")] = textIs(strconv.FormatInt(c.MaxSize, 10))
		}
		vals := map[string]valueCheck{}
		if cal && c.CompSet != nil {
			vals[name(nsCal, "supported-calendar-component-set")] = compsAre(c.CompSet)
		}
		collIdx[strings.TrimSuffix(c.Path, "/")] = add(&resource{Path: c.Path, Level: "collection", Parent: hs, Coll: true, Required: req, Values: vals})
	}
	for i, o := range d.Objs {
		req := map[string]valueCheck{name(nsDAV, "resourcetype"): typesAre()}
		if o.ETag != "" {
			req[name(nsDAV, "getetag")] = textIs(`"` + o.ETag + `"`)
		}
		if o.has() {
			req[name(nsDAV, "getlastmodified")] = textIs(o.lastModified())
		}
		if o.Len > 0 {
			req[name(nsDAV, "getcontentlength")] = textIs(strconv.FormatInt(o.Len, 10))
		}
		par, ok := collIdx[parentPath(o.Path)]
		if !ok {
			return fmt.Errorf("object %q outside every collection", o.Path)
		}
		rs := &resource{Path: o.Path, Level: "object", Parent: par, Required: req}
		if cal {
			rs.Values = map[string]valueCheck{name(nsDAV, "getcontenttype"): mediaTypeIs("text/calendar"), name(nsCal, "calendar-data"): dataOf(objUID(i))}
		} else {
			rs.Values = map[string]valueCheck{name(nsDAV, "getcontenttype"): mediaTypeIs("text/vcard"), name(nsCard, "address-data"): dataOf(objUID(i))}
		}
		if o.Ctl != 0 || o.Unenc != 0 {
			// how a text XML cannot carry is represented, and whether the
			// encoder's refusal is answered at all, is the server's business
			delete(rs.Values, name(nsCal, "calendar-data"))
			delete(rs.Values, name(nsCard, "address-data"))
		}
		if o.Unenc != 0 {
			rs.OpenStatus = map[string]bool{name(nsCal, "calendar-data"): true}
		}
		add(rs)
	}
	if cal {
		b := &doubles.CalBackend{Principal: d.Principal, HomeSet: d.HomeSet}
		for _, c := range d.Colls {
			b.Calendars = append(b.Calendars, caldav.Calendar{Path: c.Path, Name: c.Name, Description: c.Desc,
				MaxResourceSize: c.MaxSize, SupportedComponentSet: c.CompSet})
		}
		for i, o := range d.Objs {
			co := caldav.CalendarObject{Path: o.Path, ETag: o.ETag, ContentLength: o.Len, Data: makeCalendar(objUID(i))}
			if o.Ctl != 0 {
				co.Data.Children[0].Props.SetText(ical.PropDescription, ctlText(o.Ctl))
			}
			switch o.Unenc {
			case 1:
				co.Data.Children[0].Props.Del(ical.PropDateTimeStamp)
			case 2:
				co.Data.Props.Del(ical.PropProductID)
			}
			co.ModTime = o.instant()
			b.Objects = append(b.Objects, co)
		}
		e.h = &caldav.Handler{Backend: b, Prefix: d.Prefix}
	} else {
		b := &doubles.CardBackend{Principal: d.Principal, HomeSet: d.HomeSet}
		for _, c := range d.Colls {
			b.Books = append(b.Books, carddav.AddressBook{Path: c.Path, Name: c.Name, Description: c.Desc, MaxResourceSize: c.MaxSize})
		}
		for i, o := range d.Objs {
			ao := carddav.AddressObject{Path: o.Path, ETag: o.ETag, ContentLength: o.Len, Card: makeCard(objUID(i))}
			if o.Ctl != 0 {
				ao.Card.SetValue(vcard.FieldNote, ctlText(o.Ctl))
			}
			ao.ModTime = o.instant()
			b.Objects = append(b.Objects, ao)
		}
		e.h = &carddav.Handler{Backend: b, Prefix: d.Prefix}
	}
	return nil
}

func (e *env) buildPrincipal() error {
	p := e.W.Princ
	opts := &webdav.ServePrincipalOptions{CurrentUserPrincipalPath: p.CUP}
	req := map[string]valueCheck{
		name(nsDAV, "resourcetype"):           typesAre(name(nsDAV, "principal")),
		name(nsDAV, "current-user-principal"): hrefIs(p.CUP),
	}
	if p.CalHome != "" {
		opts.HomeSets = append(opts.HomeSets, caldav.NewCalendarHomeSet(p.CalHome))
		opts.Capabilities = append(opts.Capabilities, caldav.CapabilityCalendar)
		req[name(nsCal, "calendar-home-set")] = hrefIs(p.CalHome)
		if p.CalHome2 != "" {
			opts.HomeSets = append(opts.HomeSets, caldav.NewCalendarHomeSet(p.CalHome2))
			req[name(nsCal, "calendar-home-set")] = nil
		}
	}
	if p.CardHome != "" {
		opts.HomeSets = append(opts.HomeSets, carddav.NewAddressBookHomeSet(p.CardHome))
		opts.Capabilities = append(opts.Capabilities, carddav.CapabilityAddressBook)
		req[name(nsCard, "addressbook-home-set")] = hrefIs(p.CardHome)
		if p.CardHome2 != "" {
			opts.HomeSets = append(opts.HomeSets, carddav.NewAddressBookHomeSet(p.CardHome2))
			req[name(nsCard, "addressbook-home-set")] = nil
		}
	}
	e.byPath[p.Path] = 0
	e.res = append(e.res, &resource{Path: p.Path, Level: "principal", Parent: -1, Required: req})
	e.h = http.HandlerFunc(func(w http.ResponseWriter, r *http.Request) {
		webdav.ServePrincipal(w, r.WithContext(context.Background()), opts)
	})
	return nil
}

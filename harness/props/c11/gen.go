package c11

import (
	"fmt"
	"math/rand"
	"path/filepath"
	"strings"

	"github.com/emersion/go-webdav/verifharness/davx"
	"github.com/emersion/go-webdav/verifharness/xmltree"
)

// request is one literal PROPFIND (JSON-able, enough to replay).
type request struct {
	Target int    `json:"target"` // index of the addressed resource in the model
	Path   string `json:"path"`   // request path, unescaped
	// Depth header; NoDepth = header absent.
	Depth   string `json:"depth,omitempty"`
	NoDepth bool   `json:"no_depth,omitempty"`
	// Form: prop, allprop, propname, empty (no body, no Content-Type),
	// empty-xmlct (no body, XML Content-Type), none (well-formed propfind naming
	// none of the three forms), none-foreign-ns (allprop/propname/prop element in
	// a foreign namespace only), malformed.
	Form  string      `json:"form"`
	Names [][2]string `json:"names,omitempty"`
	// Fill (prop form): what the i-th named element carries ("" = empty
	// element; see fills). The property is named all the same.
	Fill []string `json:"fill,omitempty"`
	CT   string   `json:"content_type,omitempty"`
	Body string   `json:"body,omitempty"`
	// Framing: how the body reaches the handler ("" = plain in-process request
	// with a known length; see framings in framing.go). A request with a
	// Framing is always judged against the same request without one.
	Framing string `json:"framing,omitempty"`
	// Extra: a further request header ("Name: value") that the statement
	// gives no say in what is answered (Prefer, Brief, Accept, ...).
	Extra string `json:"extra,omitempty"`
}

// extraHeaders must leave the answer as it is: the statement accounts for
// every named property whatever else the request carries.
var extraHeaders = []string{"Prefer: return=minimal", "Prefer: return=representation", "Prefer: respond-async, return=minimal; foo=bar", "prefer: RETURN=MINIMAL",
	"Brief: t", "Accept: text/plain", "Accept-Encoding: gzip", "X-Requested-With: XMLHttpRequest", "If-None-Match: *", "Cache-Control: no-cache",
	"Accept-Charset: iso-8859-1", "Expect: ", "Range: bytes=0-10", "Content-Language: de"}

// otherCTs: Content-Type values that are not XML, on a request without a body.
var otherCTs = []string{"application/octet-stream", "text/plain", "application/x-www-form-urlencoded", "text/plain; charset=utf-8", "application/json", "multipart/form-data; boundary=x", "*/*", "garbage"}

var fsSegs = []string{".profile", "profile", ".config", "..data", "...", "a", "b.txt", "c d", "é", "x%41", "q?x", "h#1", "s;c", "a&b", "a+b", "a:b", "~t", "(p)", "[b]",
	"ü ñ.html", "%zz", "data.json", "img.png", "UPPER", "a'b", "a\"b", "a<b>", "e=f", "@at", "x,y", "sub", "deep", "0"}

// Member names that look like implementation artefacts (temporary upload
// files, editor and OS droppings, VCS directories, dot-dot look-alikes, hidden
// and very long names). They are ordinary user resources: whatever answers
// individually is a member of its collection.
var artefactSegs = []string{".webdav-put-1-1", ".webdav-put-x", ".webdav-put-", ".webdav-put-4242-7", ".DS_Store", ".git", ".tmp", "~x", "x~",
	".#x", "#x#", "lost+found", "...", ".. ", "..a", ".hidden", ".a", "._x", ".htaccess", "Thumbs.db", ".~lock.x#", "x.swp", ".nfs0001",
	strings.Repeat("L", 200) + ".txt", "." + strings.Repeat("d", 150)}

var davSegs = []string{"user", "u 1", "é", "cal", "x%41", "a&b", "a+b", "work", "home", "c;d", "q?", "h#", "A", "z_9", "a<b", "x:y", "it's",
	".hidden", ".webdav-put-1-1", "~x", "...", ".tmp", "#x#"}

var etags = []string{"", "abc", "W1", "1a2b3c", "tag-with-dash", "0"}
var mimes = []string{"", "text/plain", "application/octet-stream", "text/html; charset=utf-8", "image/png"}
var xmlCTs = []string{"application/xml", "text/xml", `application/xml; charset="utf-8"`, "text/xml; charset=utf-8", "Application/XML"}
var badDepths = []string{"2", "-1", "inf", "one", "1.0", "00", "0,1", "infinite", "10"}

// Property names the servers know for some resource.
var knownNames = [][2]string{
	{nsDAV, "resourcetype"}, {nsDAV, "getcontentlength"}, {nsDAV, "getlastmodified"}, {nsDAV, "getcontenttype"},
	{nsDAV, "getetag"}, {nsDAV, "displayname"}, {nsDAV, "current-user-principal"},
	{nsCal, "calendar-home-set"}, {nsCal, "calendar-description"}, {nsCal, "supported-calendar-component-set"},
	{nsCal, "supported-calendar-data"}, {nsCal, "max-resource-size"}, {nsCal, "calendar-data"},
	{nsCard, "addressbook-home-set"}, {nsCard, "addressbook-description"}, {nsCard, "supported-address-data"},
	{nsCard, "max-resource-size"}, {nsCard, "address-data"},
}

// Names in DAV: (and the CalDAV/CardDAV namespaces) no server implements.
var unknownNames = [][2]string{
	{nsDAV, "creationdate"}, {nsDAV, "supportedlock"}, {nsDAV, "lockdiscovery"}, {nsDAV, "owner"},
	{nsDAV, "quota-used-bytes"}, {nsDAV, "principal-URL"}, {nsDAV, "nonexistent"}, {nsDAV, "ResourceType"},
	{nsDAV, "getcontentlanguage"}, {nsCal, "calendar-timezone"}, {nsCard, "max-image-size"}, {nsDAV, "x-y.z_1"},
}

// Names in foreign namespaces (some share a local name with a known one).
var foreignNames = [][2]string{
	{"http://example.com/ns", "foo"}, {"urn:x", "resourcetype"}, {"http://apple.com/ns/ical/", "calendar-color"},
	{"DAV", "getetag"}, {"dav:", "displayname"}, {"http://calendarserver.org/ns/", "getctag"},
	{"urn:ietf:params:xml:ns:caldav:", "calendar-data"}, {"http://example.com/ns?a=1&b=<2>", "odd-ns"},
	{"", "bare"}, {"", "resourcetype"},
}

// fills: what a property element named in a prop request may carry. RFC 4918
// does not require these elements to be empty (CALDAV:calendar-data with comp
// children, CARDDAV:address-data with prop children, xml:lang, stray text or
// white space from a pretty-printer): the property is named all the same, and
// what is nested inside it is not a property name.
var fills = []string{"text", "space", "attr", "lang", "child-known", "child-same", "child-foreign", "comp", "card-prop", "comment", "deep"}

func fillElement(el *xmltree.Node, kind string) {
	switch kind {
	case "text":
		el.Add(xmltree.Txt("some <text> & more"))
	case "space":
		el.Add(xmltree.Txt("\n    "))
	case "attr":
		el.With("name", "VEVENT", "content-type", "text/calendar", "x", "")
	case "lang":
		el.Attrs = append(el.Attrs, xmltree.Attr{Space: "http://www.w3.org/XML/1998/namespace", Local: "lang", Value: "en"})
	case "child-known":
		el.Add(xmltree.El(nsDAV, "resourcetype"), xmltree.El(nsDAV, "getetag"), xmltree.El(nsDAV, "creationdate"))
	case "child-same":
		el.Add(xmltree.El(el.Space, el.Local))
	case "child-foreign":
		el.Add(xmltree.Txt(" "), xmltree.El("urn:x", "y", xmltree.Txt("t")).With("a", "b"), xmltree.Txt(" "))
	case "comp":
		el.Add(xmltree.El(nsCal, "comp",
			xmltree.El(nsCal, "prop").With("name", "VERSION"),
			xmltree.El(nsCal, "comp", xmltree.El(nsCal, "prop").With("name", "SUMMARY")).With("name", "VEVENT")).With("name", "VCALENDAR"))
	case "card-prop":
		el.Add(xmltree.El(nsCard, "prop").With("name", "FN"), xmltree.El(nsCard, "prop").With("name", "UID"))
	case "comment":
		el.Add(&xmltree.Node{Kind: xmltree.Comment, Data: " nothing "})
	case "deep":
		n := el
		for i := 0; i < 12; i++ {
			c := xmltree.El(nsDAV, "prop")
			n.Add(c)
			n = c
		}
		n.Add(xmltree.El(nsDAV, "getcontentlength"))
	}
}

func nameClass(n [2]string) string {
	for _, k := range knownNames {
		if k == n {
			return "known"
		}
	}
	switch n[0] {
	case nsDAV, nsCal, nsCard:
		return "unknown"
	case "":
		return "no-namespace"
	}
	return "foreign"
}

func uniqueSeg(r *rand.Rand, pool []string, used map[string]bool) string {
	for k := 0; k < 50; k++ {
		s := pool[r.Intn(len(pool))]
		if !used[s] {
			used[s] = true
			return s
		}
	}
	for i := 0; ; i++ {
		s := fmt.Sprintf("n%d", i)
		if !used[s] {
			used[s] = true
			return s
		}
	}
}

// boundaryInstants: seconds since the Unix epoch at which representations of
// time change: the epoch itself and its neighbours, the ends of a minute and
// of a day, the 32-bit limits (signed, unsigned), a leap day, the turn of a
// century, 1900 and 1601 (the NTP and Windows epochs), the last second a
// four-digit year can name.
var boundaryInstants = []int64{0, 1, -1, 59, 60, 86399, 86400, -86400, 1<<31 - 1, 1 << 31, 1<<32 - 1, 1 << 32, -(1 << 31), -(1 << 31) - 1,
	951782400, 946684799, 946684800, -2208988800, -11644473600, 253402300799}

var zones = []int{3600, -18000, 19800, 45900, -43200, 50400, -1}

// genMod draws the modification time of a resource that has one: a recent
// instant (half), a boundary instant, or any instant a file system can hold
// (fs-local: 1902..2106) or an HTTP-date can name (doubles: 1601..9999); with
// a sub-second part one time in three; the doubles report it in a zone of
// their own one time in three and with a monotonic reading one time in eight.
func genMod(r *rand.Rand, local bool) modSpec {
	m := modSpec{ModSet: true}
	lo, hi := int64(-11644473600), int64(253402300799)
	if local {
		lo, hi = -(1 << 31), 1<<32-1
	}
	switch k := r.Intn(10); {
	case k < 5:
		m.ModUnix = 1000000000 + r.Int63n(700000000)
	case k < 8:
		m.ModUnix = boundaryInstants[r.Intn(len(boundaryInstants))]
		if m.ModUnix < lo || m.ModUnix > hi {
			m.ModUnix = boundaryInstants[r.Intn(8)]
		}
	default:
		m.ModUnix = lo + r.Int63n(hi-lo+1)
	}
	if r.Intn(3) == 0 {
		m.ModNsec = r.Int63n(1000000000)
	}
	if !local {
		if r.Intn(3) == 0 {
			m.ModZone = zones[r.Intn(len(zones))]
		}
		if r.Intn(8) == 0 {
			m.ModMono = true
		}
	}
	return m
}

func genFileWorld(r *rand.Rand, server string) world {
	w := world{Server: server}
	w.Files = append(w.Files, fileSpec{Path: "/", Dir: true})
	local := server == srvLocal
	budget := 2 + r.Intn(30)
	var fill func(dir string, depth int)
	fill = func(dir string, depth int) {
		n := 1 + r.Intn(6)
		if depth == 0 && r.Intn(10) == 0 {
			n = 0 // an empty root now and then
		}
		used := map[string]bool{}
		type sub struct{ p string }
		var subs []sub
		for i := 0; i < n && budget > 0; i++ {
			budget--
			pool := fsSegs
			if r.Intn(4) == 0 {
				pool = artefactSegs
			}
			seg := uniqueSeg(r, pool, used)
			p := dir + "/" + seg
			if dir == "/" {
				p = "/" + seg
			}
			f := fileSpec{Path: p}
			if depth < 3 && r.Intn(2) == 0 {
				f.Dir = true
				f.Slash = !local && r.Intn(2) == 0
				subs = append(subs, sub{p})
			} else {
				f.modSpec = genMod(r, local)
				if local {
					f.Size = int64(r.Intn(65))
				} else {
					switch r.Intn(4) {
					case 0:
						f.Size = 0
					case 1:
						f.Size = r.Int63n(1 << 40)
					default:
						f.Size = int64(r.Intn(5000))
					}
					f.MIME = mimes[r.Intn(len(mimes))]
					f.ETag = etags[r.Intn(len(etags))]
					if r.Intn(3) == 0 {
						// the backend does not know: the zero time.Time, in
						// UTC or in the zone drawn
						f.modSpec = modSpec{ModZone: f.ModZone}
					}
				}
			}
			w.Files = append(w.Files, f)
		}
		for _, s := range subs {
			if r.Intn(4) != 0 { // a quarter of the directories stay empty
				fill(s.p, depth+1)
			}
		}
	}
	fill("/", 0)
	if local && r.Intn(10) < 7 {
		addLinks(r, &w)
	}
	return w
}

func under(p, dir string) bool {
	if dir == "/" {
		return true
	}
	return p == dir || strings.HasPrefix(p, dir+"/")
}

func relTarget(fromDir, to string) string {
	rel, err := filepath.Rel(filepath.FromSlash(fromDir), filepath.FromSlash(to))
	if err != nil {
		return "."
	}
	return filepath.ToSlash(rel)
}

// addLinks puts 1-4 symbolic links with relative targets inside the tree into
// an fs-local world: links to directories, to files and dangling ones, at the
// top level and in sub-collections, named so that siblings sort on both sides.
// Links to directories never form a cycle: no link lives inside the subtree of
// a link target.
func addLinks(r *rand.Rand, w *world) {
	var dirs, files []string
	kids := map[string][]string{}
	for _, f := range w.Files {
		if f.Dir {
			dirs = append(dirs, f.Path)
		} else {
			files = append(files, f.Path)
		}
		if f.Path != "/" {
			kids[parentPath(f.Path)] = append(kids[parentPath(f.Path)], f.Path[strings.LastIndexByte(f.Path, '/')+1:])
		}
	}
	var targets, links []string
	n := 1 + r.Intn(4)
	for k := 0; k < n; k++ {
		kind := []string{"dir", "dir", "file", "dangling"}[r.Intn(4)]
		// where the link lives: outside every link target's subtree
		var homes []string
		for _, d := range dirs {
			ok := true
			for _, t := range targets {
				if under(d, t) {
					ok = false
				}
			}
			if ok {
				homes = append(homes, d)
			}
		}
		if len(homes) == 0 {
			return
		}
		home := homes[r.Intn(len(homes))]
		if r.Intn(3) == 0 {
			home = "/"
			for _, t := range targets {
				if under(home, t) {
					home = homes[0]
				}
			}
		}
		var target string
		switch kind {
		case "dir":
			var cands []string
			for _, d := range dirs {
				if d == "/" || under(home, d) {
					continue
				}
				ok := true
				for _, l := range links {
					if under(l, d) {
						ok = false
					}
				}
				if ok {
					cands = append(cands, d)
				}
			}
			if len(cands) == 0 {
				kind = "dangling"
			} else {
				target = cands[r.Intn(len(cands))]
				targets = append(targets, target)
			}
		case "file":
			if len(files) == 0 {
				kind = "dangling"
			} else {
				target = files[r.Intn(len(files))]
			}
		}
		rel := ""
		if kind == "dangling" {
			rel = []string{"gone", "../gone", "missing/target", "no such"}[r.Intn(4)]
		} else {
			rel = relTarget(home, target)
		}
		// a name that sorts among the siblings
		used := map[string]bool{}
		for _, s := range kids[home] {
			used[s] = true
		}
		var seg string
		if sib := kids[home]; len(sib) > 0 && r.Intn(4) != 0 {
			seg = sib[r.Intn(len(sib))] + "!l"
		} else {
			seg = []string{"0-lnk", "M-lnk", "mid-lnk", "zz-lnk", "~lnk"}[r.Intn(5)]
		}
		for used[seg] {
			seg += "_"
		}
		kids[home] = append(kids[home], seg)
		p := home + "/" + seg
		if home == "/" {
			p = "/" + seg
		}
		links = append(links, p)
		w.Files = append(w.Files, fileSpec{Path: p, Link: rel, LinkKind: kind})
	}
}

func maybeSlash(r *rand.Rand, p string) string {
	if r.Intn(3) != 0 {
		return p + "/"
	}
	return p
}

func genDavWorld(r *rand.Rand, server string) world {
	d := &davSpec{}
	d.Prefix = []string{"", "", "/dav", "/dav/", "/a/b", "/p q"}[r.Intn(6)]
	pt := strings.TrimSuffix(d.Prefix, "/")
	d.Root = pt + "/"
	if pt != "" && r.Intn(3) == 0 {
		d.Root = pt
	}
	used := map[string]bool{}
	d.Principal = maybeSlash(r, pt+"/"+uniqueSeg(r, davSegs, used))
	d.HomeSet = maybeSlash(r, strings.TrimSuffix(d.Principal, "/")+"/"+uniqueSeg(r, davSegs, map[string]bool{}))
	ht := strings.TrimSuffix(d.HomeSet, "/")
	nColl := r.Intn(6)
	meta := r.Intn(3) // 0: none, 1: all, 2: mixed
	pick := func() bool { return meta == 1 || (meta == 2 && r.Intn(2) == 0) }
	cused := map[string]bool{}
	d.Colls = []collSpec{}
	d.Objs = []objSpec{}
	for i := 0; i < nColl; i++ {
		c := collSpec{Path: maybeSlash(r, ht+"/"+uniqueSeg(r, davSegs, cused))}
		if pick() {
			c.Name = []string{"Work", "Privé & <co>", " spaced ", "名前"}[r.Intn(4)]
		}
		if pick() {
			c.Desc = []string{"desc", "multi\nline", "a < b && c"}[r.Intn(3)]
		}
		if pick() {
			c.MaxSize = 1 + r.Int63n(1<<30)
		}
		if server == srvCal && pick() {
			c.CompSet = [][]string{{"VEVENT"}, {"VEVENT", "VTODO"}, {"VJOURNAL"}, {}}[r.Intn(4)]
		}
		d.Colls = append(d.Colls, c)
		nObj := r.Intn(7)
		oused := map[string]bool{}
		ext := ".vcf"
		if server == srvCal {
			ext = ".ics"
		}
		for j := 0; j < nObj; j++ {
			o := objSpec{Path: strings.TrimSuffix(c.Path, "/") + "/" + uniqueSeg(r, davSegs, oused) + ext}
			if pick() {
				o.ETag = etags[1+r.Intn(len(etags)-1)]
			}
			if pick() {
				o.modSpec = genMod(r, false)
			}
			if pick() {
				o.Len = 1 + int64(r.Intn(100000))
			}
			if r.Intn(7) == 0 {
				o.Ctl = 1 + r.Intn(3)
			}
			if server == srvCal && r.Intn(9) == 0 {
				// held by the backend, refused by the iCalendar encoder
				o.Unenc = 1 + r.Intn(2)
			}
			d.Objs = append(d.Objs, o)
		}
	}
	return world{Server: server, Dav: d}
}

func genPrincipalWorld(r *rand.Rand) world {
	p := &principalSpec{}
	p.Path = []string{"/", "/principals/u/", "/p q/é", "/dav/principals/x%41", "/u"}[r.Intn(5)]
	p.CUP = p.Path
	if r.Intn(3) == 0 {
		p.CUP = []string{"/other/", "/me & you/", "/"}[r.Intn(3)]
	}
	if r.Intn(3) != 0 {
		p.CalHome = []string{"/cal/", "/u/calendars/", "/c d/é/"}[r.Intn(3)]
	}
	if r.Intn(3) != 0 {
		p.CardHome = []string{"/card/", "/u/contacts/", "/a&b/"}[r.Intn(3)]
	}
	if p.CalHome != "" && r.Intn(4) == 0 {
		p.CalHome2 = "/shared/calendars/"
	}
	if p.CardHome != "" && r.Intn(4) == 0 {
		p.CardHome2 = "/shared/contacts/"
	}
	return world{Server: srvPrincipal, Princ: p}
}

func genWorld(r *rand.Rand, kind int) world {
	switch kind % 5 {
	case 0:
		w := genFileWorld(r, srvLocal)
		w.RootSpelling = []string{"", "", "dot", "dot-slash", "relative", "trailing-slash"}[r.Intn(6)]
		return w
	case 1:
		return genFileWorld(r, srvMem)
	case 2:
		return genDavWorld(r, srvCal)
	case 3:
		return genDavWorld(r, srvCard)
	}
	return genPrincipalWorld(r)
}

func genNames(r *rand.Rand) [][2]string {
	n := r.Intn(9)
	if n == 0 && r.Intn(2) == 0 {
		n = 1 + r.Intn(3)
	}
	var l [][2]string
	seen := map[[2]string]bool{}
	for len(l) < n {
		var c [2]string
		switch k := r.Intn(10); {
		case k < 6:
			c = knownNames[r.Intn(len(knownNames))]
		case k < 8:
			c = unknownNames[r.Intn(len(unknownNames))]
		default:
			c = foreignNames[r.Intn(len(foreignNames))]
		}
		if seen[c] {
			continue
		}
		seen[c] = true
		l = append(l, c)
	}
	if len(l) > 0 && r.Intn(10) < 3 {
		// duplicates of one or two names
		for k := 1 + r.Intn(2); k > 0; k-- {
			l = append(l, l[r.Intn(len(l))])
		}
	}
	r.Shuffle(len(l), func(i, j int) { l[i], l[j] = l[j], l[i] })
	return l
}

func malformedBody(r *rand.Rand, valid []byte) string {
	switch r.Intn(7) {
	case 0:
		return "this is not xml"
	case 1:
		return `{"propfind":"allprop"}`
	case 2:
		return `<D:propfind><D:allprop/></D:propfind>` // undeclared prefix
	case 3:
		return `<propfind xmlns="DAV:"><prop><getetag></prop></propfind>` // mismatched end tag
	case 4:
		return `<propfind xmlns="DAV:"><allprop/>` // root never closed
	case 5:
		return `<propfind xmlns="DAV:"><prop><getetag a="1" a="2"/></prop>` + "<" // junk
	}
	// a proper prefix of a valid document that stops before the root is closed
	end := strings.LastIndex(string(valid), "<")
	if end <= 1 {
		return "<"
	}
	return string(valid[:1+r.Intn(end)])
}

func noneBody(r *rand.Rand, lx *xmltree.Lex) string {
	root := xmltree.El(nsDAV, "propfind")
	switch r.Intn(5) {
	case 0:
	case 1:
		root.Add(xmltree.El(nsDAV, "include", xmltree.El(nsDAV, "getetag")))
	case 2:
		root.Add(xmltree.El(nsDAV, "foo"))
	case 3:
		root.Add(xmltree.El(nsDAV, "getetag"), xmltree.El(nsDAV, "resourcetype"))
	case 4:
		root.Add(xmltree.El("urn:x", "something", xmltree.El(nsDAV, "allprop")))
	}
	return string(xmltree.Render(root, lx))
}

func noneForeignBody(r *rand.Rand, lx *xmltree.Lex) string {
	root := xmltree.El(nsDAV, "propfind")
	ns := []string{"urn:x", "DAV", "http://example.com/ns"}[r.Intn(3)]
	switch r.Intn(3) {
	case 0:
		root.Add(xmltree.El(ns, "allprop"))
	case 1:
		root.Add(xmltree.El(ns, "propname"))
	case 2:
		root.Add(xmltree.El(ns, "prop", xmltree.El(nsDAV, "getetag")))
	}
	return string(xmltree.Render(root, lx))
}

// shortJunk are bodies of one to three bytes that are not an XML document.
var shortJunk = []string{"<", "x", "0", "&", "<a", "]]>", "<a>", "{}", "\x00"}

var nearEmptyBodies = []string{" ", "\r\n", "\n\t ", `<?xml version="1.0" encoding="utf-8"?>`, "<?xml version=\"1.0\"?>\n", "\xef\xbb\xbf", "\xef\xbb\xbf\n"}

// genRequest draws one request against resource t of the environment.
func genRequest(r *rand.Rand, e *env, t int) request {
	res := e.res[t]
	q := request{Target: t, Path: res.Path}
	if e.fileServer() && res.Coll && res.Path != "/" {
		// either spelling of a collection's URL
		q.Path = maybeSlash(r, strings.TrimSuffix(res.Path, "/"))
	}
	if (e.W.Server == srvCal || e.W.Server == srvCard) && res.Level != "root" && r.Intn(8) == 0 {
		// the other spelling of the trailing slash: the same resource or none
		if strings.HasSuffix(res.Path, "/") {
			q.Path = strings.TrimSuffix(res.Path, "/")
		} else {
			q.Path = res.Path + "/"
		}
	}
	switch k := r.Intn(20); {
	case k < 6:
		q.Depth = "0"
	case k < 11:
		q.Depth = "1"
	case k < 14:
		q.Depth = "infinity"
	case k < 18:
		q.NoDepth = true
	default:
		q.Depth = badDepths[r.Intn(len(badDepths))]
	}
	lx := xmltree.FullLex(r)
	q.CT = xmlCTs[r.Intn(len(xmlCTs))]
	switch k := r.Intn(40); {
	case k < 21:
		q.Form = "prop"
		q.Names = genNames(r)
		root := davx.PropFindTree("prop", q.Names)
		if els := root.Elems()[0].Elems(); len(els) == len(q.Names) {
			fill := make([]string, len(els))
			any := false
			for i, el := range els {
				if r.Intn(5) == 0 {
					fill[i] = fills[r.Intn(len(fills))]
					fillElement(el, fill[i])
					any = true
				}
			}
			if any {
				q.Fill = fill
			}
		}
		q.Body = string(xmltree.Render(root, lx))
	case k < 24:
		q.Form = "allprop"
		q.Body = string(xmltree.Render(davx.PropFindTree("allprop", nil), lx))
	case k < 25:
		// RFC 4918 9.1 / 14.8: allprop with an include list (names the
		// resource has, lacks, repeats)
		q.Form = "allprop-include"
		q.Names = genNames(r)
		root := davx.PropFindTree("allprop", nil)
		inc := xmltree.El(nsDAV, "include")
		for _, n := range q.Names {
			inc.Add(xmltree.El(n[0], n[1]))
		}
		root.Add(inc)
		q.Body = string(xmltree.Render(root, lx))
	case k < 29:
		q.Form = "propname"
		q.Body = string(xmltree.Render(davx.PropFindTree("propname", nil), lx))
	case k < 32:
		q.Form = "empty"
		q.CT = ""
	case k < 33:
		q.Form = "empty-xmlct"
		if r.Intn(2) == 0 {
			// no body, a Content-Type that is not XML: still an empty body
			q.Form = "empty"
			q.CT = otherCTs[r.Intn(len(otherCTs))]
		}
	case k < 36:
		q.Form = "none"
		q.Body = noneBody(r, lx)
	case k < 37:
		q.Form = "none-foreign-ns"
		q.Body = noneForeignBody(r, lx)
	case k < 39:
		q.Form = "malformed"
		valid := xmltree.Render(davx.PropFindTree("prop", genNames(r)), lx)
		q.Body = malformedBody(r, valid)
		if r.Intn(3) == 0 {
			// one to three bytes that are no document, half of them without
			// a Content-Type: what tells them from "no body" is their
			// presence alone (framing family, framing.go)
			q.Body = shortJunk[r.Intn(len(shortJunk))]
			if r.Intn(2) == 0 {
				q.CT = ""
			}
		}
	default:
		// a body that holds no document: white space, an XML declaration, a BOM
		q.Form = "near-empty"
		q.Body = nearEmptyBodies[r.Intn(len(nearEmptyBodies))]
		if r.Intn(2) == 0 {
			q.CT = ""
		}
	}
	if r.Intn(6) == 0 {
		q.Extra = extraHeaders[r.Intn(len(extraHeaders))]
	}
	return q
}

// Package davx is the harness's independent reader and writer of RFC 4918
// documents (multistatus, propfind). It is written from the RFC's DTD over
// xmltree and shares no struct, tag or helper with go-webdav.
package davx

import (
	"fmt"
	"strconv"
	"strings"

	"github.com/emersion/go-webdav/verifharness/xmltree"
)

const NS = "DAV:"

type Status struct {
	Code   int
	Phrase string
}

type PropStat struct {
	Status Status
	Props  []*xmltree.Node // element children of DAV:prop
	Error  *xmltree.Node
	Desc   string
}

type Response struct {
	Hrefs     []string // raw href text
	Paths     []string // percent-decoded path component of each href
	Status    *Status
	PropStats []PropStat
	Error     *xmltree.Node
	Desc      string
	Location  string
}

type MultiStatus struct {
	Responses []Response
	Desc      string
	SyncToken string
}

// ParseStatus parses an RFC 4918 status element's text:
// "HTTP/1.1" SP 3DIGIT SP reason-phrase.
func ParseStatus(s string) (Status, error) {
	// RFC 7230: status-line = HTTP-version SP status-code SP reason-phrase;
	// the phrase may be empty but the second SP is part of the grammar, so
	// trailing spaces are kept (only line breaks/tabs of pretty-printing go).
	s = strings.TrimLeft(s, " \t\r\n")
	s = strings.TrimRight(s, "\t\r\n")
	parts := strings.SplitN(s, " ", 3)
	if len(parts) < 3 {
		return Status{}, fmt.Errorf("davx: malformed status %q: want HTTP-version SP status-code SP reason-phrase", s)
	}
	if !strings.HasPrefix(parts[0], "HTTP/") {
		return Status{}, fmt.Errorf("davx: status %q does not start with HTTP-version", s)
	}
	if len(parts[1]) != 3 {
		return Status{}, fmt.Errorf("davx: status code %q is not 3 digits", parts[1])
	}
	for _, c := range parts[1] {
		if c < '0' || c > '9' {
			return Status{}, fmt.Errorf("davx: status code %q is not 3 digits", parts[1])
		}
	}
	code, _ := strconv.Atoi(parts[1])
	st := Status{Code: code}
	if len(parts) == 3 {
		st.Phrase = parts[2]
	}
	return st, nil
}

// HrefPath extracts the percent-decoded path of a URI reference, written
// independently of net/url.
func HrefPath(href string) (string, error) {
	s := strings.TrimSpace(href)
	if i := strings.IndexByte(s, '#'); i >= 0 {
		s = s[:i]
	}
	if i := strings.IndexByte(s, '?'); i >= 0 {
		s = s[:i]
	}
	// scheme://authority
	if i := strings.Index(s, "://"); i > 0 && isScheme(s[:i]) {
		rest := s[i+3:]
		if j := strings.IndexByte(rest, '/'); j >= 0 {
			s = rest[j:]
		} else {
			s = ""
		}
	} else if strings.HasPrefix(s, "//") {
		rest := s[2:]
		if j := strings.IndexByte(rest, '/'); j >= 0 {
			s = rest[j:]
		} else {
			s = ""
		}
	}
	var sb strings.Builder
	for i := 0; i < len(s); i++ {
		if s[i] == '%' {
			if i+2 >= len(s) {
				return "", fmt.Errorf("davx: truncated percent escape in %q", href)
			}
			h, ok1 := unhex(s[i+1])
			l, ok2 := unhex(s[i+2])
			if !ok1 || !ok2 {
				return "", fmt.Errorf("davx: bad percent escape in %q", href)
			}
			sb.WriteByte(h<<4 | l)
			i += 2
			continue
		}
		sb.WriteByte(s[i])
	}
	return sb.String(), nil
}

func isScheme(s string) bool {
	if s == "" {
		return false
	}
	for i, c := range s {
		switch {
		case c >= 'a' && c <= 'z', c >= 'A' && c <= 'Z':
		case i > 0 && (c >= '0' && c <= '9' || c == '+' || c == '-' || c == '.'):
		default:
			return false
		}
	}
	return true
}

func unhex(c byte) (byte, bool) {
	switch {
	case c >= '0' && c <= '9':
		return c - '0', true
	case c >= 'a' && c <= 'f':
		return c - 'a' + 10, true
	case c >= 'A' && c <= 'F':
		return c - 'A' + 10, true
	}
	return 0, false
}

// EscapePath percent-encodes a path for use as an href (independent of
// net/url): unreserved characters, sub-delims safe in a path segment and "/"
// stay, everything else is escaped byte-wise.
func EscapePath(p string) string {
	var sb strings.Builder
	for i := 0; i < len(p); i++ {
		c := p[i]
		switch {
		case c >= 'a' && c <= 'z', c >= 'A' && c <= 'Z', c >= '0' && c <= '9':
			sb.WriteByte(c)
		case strings.IndexByte("-._~/!$&'()*+,=:@", c) >= 0:
			sb.WriteByte(c)
		default:
			fmt.Fprintf(&sb, "%%%02X", c)
		}
	}
	return sb.String()
}

// ReadMultiStatus strictly reads a {DAV:}multistatus document.
func ReadMultiStatus(body []byte) (*MultiStatus, error) {
	root, err := xmltree.Parse(body)
	if err != nil {
		return nil, err
	}
	return MultiStatusFromTree(root)
}

// MultiStatusFromTree interprets a parsed tree. DAV: children are read
// order-insensitively; unknown elements are ignored (RFC 4918 section 17).
func MultiStatusFromTree(root *xmltree.Node) (*MultiStatus, error) {
	if !root.Is(NS, "multistatus") {
		return nil, fmt.Errorf("davx: root is %s, want {DAV:}multistatus", root.Name())
	}
	ms := &MultiStatus{}
	for _, c := range root.Elems() {
		switch {
		case c.Is(NS, "response"):
			r, err := readResponse(c)
			if err != nil {
				return nil, err
			}
			ms.Responses = append(ms.Responses, *r)
		case c.Is(NS, "responsedescription"):
			ms.Desc = c.TextContent()
		case c.Is(NS, "sync-token"):
			ms.SyncToken = c.TextContent()
		}
	}
	return ms, nil
}

func readResponse(n *xmltree.Node) (*Response, error) {
	r := &Response{}
	for _, c := range n.Elems() {
		switch {
		case c.Is(NS, "href"):
			raw := c.TextContent()
			p, err := HrefPath(raw)
			if err != nil {
				return nil, err
			}
			r.Hrefs = append(r.Hrefs, raw)
			r.Paths = append(r.Paths, p)
		case c.Is(NS, "status"):
			if r.Status != nil {
				return nil, fmt.Errorf("davx: response with two status elements")
			}
			st, err := ParseStatus(c.TextContent())
			if err != nil {
				return nil, err
			}
			r.Status = &st
		case c.Is(NS, "propstat"):
			ps, err := readPropStat(c)
			if err != nil {
				return nil, err
			}
			r.PropStats = append(r.PropStats, *ps)
		case c.Is(NS, "error"):
			r.Error = c
		case c.Is(NS, "responsedescription"):
			r.Desc = c.TextContent()
		case c.Is(NS, "location"):
			if h := c.First(NS, "href"); h != nil {
				r.Location = h.TextContent()
			}
		}
	}
	if len(r.Hrefs) == 0 {
		return nil, fmt.Errorf("davx: response without href")
	}
	if r.Status == nil && len(r.PropStats) == 0 {
		return nil, fmt.Errorf("davx: response %q with neither status nor propstat", r.Hrefs[0])
	}
	if r.Status != nil && len(r.PropStats) > 0 {
		return nil, fmt.Errorf("davx: response %q with both status and propstat", r.Hrefs[0])
	}
	if len(r.PropStats) > 0 && len(r.Hrefs) != 1 {
		return nil, fmt.Errorf("davx: propstat response with %d hrefs", len(r.Hrefs))
	}
	return r, nil
}

func readPropStat(n *xmltree.Node) (*PropStat, error) {
	ps := &PropStat{}
	var haveProp, haveStatus bool
	for _, c := range n.Elems() {
		switch {
		case c.Is(NS, "prop"):
			if haveProp {
				return nil, fmt.Errorf("davx: propstat with two prop elements")
			}
			haveProp = true
			ps.Props = c.Elems()
		case c.Is(NS, "status"):
			if haveStatus {
				return nil, fmt.Errorf("davx: propstat with two status elements")
			}
			haveStatus = true
			st, err := ParseStatus(c.TextContent())
			if err != nil {
				return nil, err
			}
			ps.Status = st
		case c.Is(NS, "error"):
			ps.Error = c
		case c.Is(NS, "responsedescription"):
			ps.Desc = c.TextContent()
		}
	}
	if !haveProp || !haveStatus {
		return nil, fmt.Errorf("davx: propstat needs prop and status")
	}
	return ps, nil
}

// Prop finds property {space}local in the response and the status it is
// reported under (first occurrence).
func (r *Response) Prop(space, local string) (*xmltree.Node, int) {
	for _, ps := range r.PropStats {
		for _, p := range ps.Props {
			if p.Is(space, local) {
				return p, ps.Status.Code
			}
		}
	}
	return nil, 0
}

// PropNames lists "{space}local" of every property with its status, in
// document order (duplicates kept).
func (r *Response) PropNames() (names []string, codes []int) {
	for _, ps := range r.PropStats {
		for _, p := range ps.Props {
			names = append(names, p.Name())
			codes = append(codes, ps.Status.Code)
		}
	}
	return
}

// --- writers ---------------------------------------------------------------

// StatusText renders a status line.
func StatusText(code int, phrase string) string {
	if phrase == "" {
		phrase = "X"
	}
	return fmt.Sprintf("HTTP/1.1 %03d %s", code, phrase)
}

// PropFindTree builds a propfind request. form is "prop", "allprop",
// "propname", "none" (empty propfind element).
func PropFindTree(form string, names [][2]string) *xmltree.Node {
	root := xmltree.El(NS, "propfind")
	switch form {
	case "prop":
		p := xmltree.El(NS, "prop")
		for _, n := range names {
			p.Add(xmltree.El(n[0], n[1]))
		}
		root.Add(p)
	case "allprop":
		root.Add(xmltree.El(NS, "allprop"))
	case "propname":
		root.Add(xmltree.El(NS, "propname"))
	}
	return root
}

// MultiStatusTree builds a multistatus document from the neutral value.
// onePropPerStat splits every property into its own propstat.
func MultiStatusTree(ms *MultiStatus, onePropPerStat bool) *xmltree.Node {
	root := xmltree.El(NS, "multistatus")
	for _, r := range ms.Responses {
		rn := xmltree.El(NS, "response")
		for _, h := range r.Hrefs {
			rn.Add(xmltree.El(NS, "href", xmltree.Txt(h)))
		}
		if r.Status != nil {
			rn.Add(xmltree.El(NS, "status", xmltree.Txt(StatusText(r.Status.Code, r.Status.Phrase))))
		}
		for _, ps := range r.PropStats {
			groups := [][]*xmltree.Node{ps.Props}
			if onePropPerStat && len(ps.Props) > 1 {
				groups = nil
				for _, p := range ps.Props {
					groups = append(groups, []*xmltree.Node{p})
				}
			}
			for _, g := range groups {
				pn := xmltree.El(NS, "prop")
				for _, p := range g {
					pn.Add(p.Clone())
				}
				psn := xmltree.El(NS, "propstat", pn, xmltree.El(NS, "status", xmltree.Txt(StatusText(ps.Status.Code, ps.Status.Phrase))))
				if ps.Error != nil {
					psn.Add(ps.Error.Clone())
				}
				if ps.Desc != "" {
					psn.Add(xmltree.El(NS, "responsedescription", xmltree.Txt(ps.Desc)))
				}
				rn.Add(psn)
			}
		}
		if r.Error != nil {
			rn.Add(r.Error.Clone())
		}
		if r.Desc != "" {
			rn.Add(xmltree.El(NS, "responsedescription", xmltree.Txt(r.Desc)))
		}
		if r.Location != "" {
			rn.Add(xmltree.El(NS, "location", xmltree.El(NS, "href", xmltree.Txt(r.Location))))
		}
		root.Add(rn)
	}
	if ms.Desc != "" {
		root.Add(xmltree.El(NS, "responsedescription", xmltree.Txt(ms.Desc)))
	}
	if ms.SyncToken != "" {
		root.Add(xmltree.El(NS, "sync-token", xmltree.Txt(ms.SyncToken)))
	}
	return root
}

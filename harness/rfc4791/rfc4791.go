// Package rfc4791 is the harness's independent reader and writer of the two
// CalDAV REPORT request documents, CALDAV:calendar-query and
// CALDAV:calendar-multiget. It is transcribed from the DTD fragments of
// RFC 4791 section 9 (DESIGN.md Appendix A) over xmltree and shares no struct,
// tag or helper with go-webdav:
//
//	calendar-query     ((D:allprop | D:propname | D:prop)?, filter, timezone?)
//	calendar-multiget  ((D:allprop | D:propname | D:prop)?, D:href+)
//	calendar-data      (comp?, (expand | limit-recurrence-set)?, limit-freebusy-set?)   @content-type? @version?
//	comp               ((allprop | prop*), (allcomp | comp*))                          @name
//	prop               EMPTY                                                            @name @novalue(yes|no)
//	expand, limit-recurrence-set, limit-freebusy-set   EMPTY                            @start @end (both required)
//	filter             (comp-filter)
//	comp-filter        (is-not-defined | (time-range?, prop-filter*, comp-filter*))     @name
//	prop-filter        (is-not-defined | ((time-range | text-match)?, param-filter*))   @name
//	param-filter       (is-not-defined | text-match)?                                   @name
//	text-match         #PCDATA          @collation? @negate-condition(yes|no)? (default no)
//	time-range         EMPTY            @start? @end? (at least one)
//	date-time values   YYYYMMDD"T"HHMMSS"Z" (RFC 5545 "date with UTC time")
//
// The reader is strict about conformance but lenient about decoding: every
// departure from the grammar is returned as a Violation while the request is
// still decoded as far as it can be understood, so that one defect (say, a
// wrong child order) does not hide the others.
package rfc4791

import (
	"fmt"
	"regexp"
	"sort"
	"strings"

	"github.com/emersion/go-webdav/verifharness/davx"
	"github.com/emersion/go-webdav/verifharness/xmltree"
)

const (
	NS  = "urn:ietf:params:xml:ns:caldav"
	DAV = "DAV:"
)

// ---------------------------------------------------------------------------
// Neutral request value.

// TextMatch is CALDAV:text-match.
type TextMatch struct {
	Text   string `json:"text"`
	Negate bool   `json:"negate,omitempty"`
	// Collation is carried on the wire but not expressible in the public API.
	Collation *string `json:"collation,omitempty"`
	// ExplicitNo: negate-condition="no" is (to be) written out instead of
	// relying on the default.
	ExplicitNo bool `json:"explicit_no,omitempty"`
}

// ParamFilter is CALDAV:param-filter.
type ParamFilter struct {
	Name         string     `json:"name"`
	IsNotDefined bool       `json:"is_not_defined,omitempty"`
	Text         *TextMatch `json:"text_match,omitempty"`
}

// PropFilter is CALDAV:prop-filter. Start/End are UTC seconds since the
// epoch; nil is an open bound (attribute absent); both nil = no time-range.
type PropFilter struct {
	Name         string        `json:"name"`
	IsNotDefined bool          `json:"is_not_defined,omitempty"`
	Start        *int64        `json:"start,omitempty"`
	End          *int64        `json:"end,omitempty"`
	Text         *TextMatch    `json:"text_match,omitempty"`
	Params       []ParamFilter `json:"params,omitempty"`
}

// CompFilter is CALDAV:comp-filter.
type CompFilter struct {
	Name         string       `json:"name"`
	IsNotDefined bool         `json:"is_not_defined,omitempty"`
	Start        *int64       `json:"start,omitempty"`
	End          *int64       `json:"end,omitempty"`
	Props        []PropFilter `json:"props,omitempty"`
	Comps        []CompFilter `json:"comps,omitempty"`
}

// PropSel is CALDAV:prop inside CALDAV:comp.
type PropSel struct {
	Name string `json:"name"`
	// NoValue is "", "yes" or "no" (not expressible in the public API).
	NoValue string `json:"novalue,omitempty"`
}

// Comp is CALDAV:comp (request form).
type Comp struct {
	Name     string    `json:"name"`
	AllProps bool      `json:"allprops,omitempty"`
	Props    []PropSel `json:"props,omitempty"`
	AllComps bool      `json:"allcomps,omitempty"`
	Comps    []Comp    `json:"comps,omitempty"`
}

// Range is a closed pair of UTC instants (expand, limit-recurrence-set,
// limit-freebusy-set).
type Range struct {
	Start int64 `json:"start"`
	End   int64 `json:"end"`
}

// CalendarData is the request form of CALDAV:calendar-data.
type CalendarData struct {
	Comp            *Comp   `json:"comp,omitempty"`
	Expand          *Range  `json:"expand,omitempty"`
	LimitRecurrence *Range  `json:"limit_recurrence_set,omitempty"`
	LimitFreeBusy   *Range  `json:"limit_freebusy_set,omitempty"`
	ContentType     *string `json:"content_type,omitempty"`
	Version         *string `json:"version,omitempty"`
}

// PropName names a requested WebDAV property other than calendar-data.
type PropName struct {
	Space string `json:"ns"`
	Local string `json:"local"`
}

// PropReq is the (D:allprop | D:propname | D:prop)? part.
type PropReq struct {
	// Form is "" (absent), "allprop", "propname" or "prop".
	Form string `json:"form,omitempty"`
	// Others are the children of D:prop other than calendar-data, in order.
	Others []PropName `json:"others,omitempty"`
	// Data is the calendar-data request, DataAt its index among the children.
	Data   *CalendarData `json:"data,omitempty"`
	DataAt int           `json:"data_at,omitempty"`
}

// Request is a calendar-query or calendar-multiget request document.
type Request struct {
	// Kind is "calendar-query" or "calendar-multiget".
	Kind     string      `json:"kind"`
	Prop     PropReq     `json:"prop"`
	Filter   *CompFilter `json:"filter,omitempty"`
	Timezone *string     `json:"timezone,omitempty"`
	// Hrefs are the D:href texts exactly as on the wire.
	Hrefs []string `json:"hrefs,omitempty"`
}

// Paths percent-decodes the path of every href.
func (r *Request) Paths() ([]string, error) {
	var l []string
	for _, h := range r.Hrefs {
		p, err := davx.HrefPath(h)
		if err != nil {
			return nil, err
		}
		l = append(l, p)
	}
	return l, nil
}

// ---------------------------------------------------------------------------
// Date with UTC time.

func isLeap(y int64) bool { return y%4 == 0 && (y%100 != 0 || y%400 == 0) }

func daysIn(y, m int64) int64 {
	switch m {
	case 2:
		if isLeap(y) {
			return 29
		}
		return 28
	case 4, 6, 9, 11:
		return 30
	}
	return 31
}

// daysFromCivil counts days from 1970-01-01 to y-m-d in the proleptic
// Gregorian calendar.
func daysFromCivil(y, m, d int64) int64 {
	if m <= 2 {
		y--
	}
	var era int64
	if y >= 0 {
		era = y / 400
	} else {
		era = (y - 399) / 400
	}
	yoe := y - era*400
	mp := (m + 9) % 12
	doy := (153*mp+2)/5 + d - 1
	doe := yoe*365 + yoe/4 - yoe/100 + doy
	return era*146097 + doe - 719468
}

func civilFromDays(z int64) (y, m, d int64) {
	z += 719468
	var era int64
	if z >= 0 {
		era = z / 146097
	} else {
		era = (z - 146096) / 146097
	}
	doe := z - era*146097
	yoe := (doe - doe/1460 + doe/36524 - doe/146096) / 365
	y = yoe + era*400
	doy := doe - (365*yoe + yoe/4 - yoe/100)
	mp := (5*doy + 2) / 153
	d = doy - (153*mp+2)/5 + 1
	if mp < 10 {
		m = mp + 3
	} else {
		m = mp - 9
	}
	if m <= 2 {
		y++
	}
	return
}

// ParseUTC parses YYYYMMDD"T"HHMMSS"Z" into seconds since the epoch.
func ParseUTC(s string) (int64, error) {
	if len(s) != 16 || s[8] != 'T' || s[15] != 'Z' {
		return 0, fmt.Errorf("%q is not YYYYMMDDTHHMMSSZ", s)
	}
	num := func(a, b int) (int64, bool) {
		var v int64
		for i := a; i < b; i++ {
			if s[i] < '0' || s[i] > '9' {
				return 0, false
			}
			v = v*10 + int64(s[i]-'0')
		}
		return v, true
	}
	y, ok1 := num(0, 4)
	mo, ok2 := num(4, 6)
	d, ok3 := num(6, 8)
	h, ok4 := num(9, 11)
	mi, ok5 := num(11, 13)
	se, ok6 := num(13, 15)
	if !(ok1 && ok2 && ok3 && ok4 && ok5 && ok6) {
		return 0, fmt.Errorf("%q is not YYYYMMDDTHHMMSSZ", s)
	}
	if mo < 1 || mo > 12 || d < 1 || d > daysIn(y, mo) || h > 23 || mi > 59 || se > 60 {
		return 0, fmt.Errorf("%q: field out of range", s)
	}
	return daysFromCivil(y, mo, d)*86400 + h*3600 + mi*60 + se, nil
}

// FormatUTC renders seconds since the epoch as YYYYMMDD"T"HHMMSS"Z". The
// instant must lie in years 0000..9999.
func FormatUTC(unix int64) string {
	days := unix / 86400
	rem := unix % 86400
	if rem < 0 {
		rem += 86400
		days--
	}
	y, m, d := civilFromDays(days)
	return fmt.Sprintf("%04d%02d%02dT%02d%02d%02dZ", y, m, d, rem/3600, rem%3600/60, rem%60)
}

// ---------------------------------------------------------------------------
// Reader.

// Violation is one departure of a document from the RFC 4791 grammar.
type Violation struct {
	// Where names the element (and attribute) concerned, without position:
	// "calendar-multiget", "comp", "time-range@start".
	Where string `json:"where"`
	// Rule is one of: namespace, unknown-element, unknown-attribute,
	// missing-attribute, value-grammar, child-order, content-model,
	// text-in-element-content, root.
	Rule   string `json:"rule"`
	Detail string `json:"detail"`
}

func (v Violation) String() string { return v.Where + ": " + v.Rule + ": " + v.Detail }

type reader struct {
	viol []Violation
}

func (rd *reader) bad(where, rule, format string, a ...interface{}) {
	rd.viol = append(rd.viol, Violation{Where: where, Rule: rule, Detail: fmt.Sprintf(format, a...)})
}

type childSpec struct {
	space, local string
	letter       byte
}

// classify maps the element children of n to the letters of specs (in
// document order) and checks that n has element-only content.
func (rd *reader) classify(n *xmltree.Node, where string, specs []childSpec) (string, map[byte][]*xmltree.Node) {
	var seq []byte
	by := map[byte][]*xmltree.Node{}
	if n.HasNonSpaceText() {
		rd.bad(where, "text-in-element-content", "character data %q inside element-only content", strings.TrimSpace(n.TextContent()))
	}
	for _, c := range n.Elems() {
		letter := byte('?')
		for _, s := range specs {
			if c.Space == s.space && c.Local == s.local {
				letter = s.letter
				break
			}
		}
		if letter == '?' {
			for _, s := range specs {
				if c.Local == s.local {
					rd.bad(where+"/"+s.local, "namespace", "child %s is in namespace %q, want %q", c.Local, c.Space, s.space)
					letter = s.letter
					break
				}
			}
		}
		if letter == '?' {
			rd.bad(where, "unknown-element", "unexpected child %s", c.Name())
		}
		seq = append(seq, letter)
		by[letter] = append(by[letter], c)
	}
	return string(seq), by
}

// model checks the child sequence against the content model; a sequence
// that would be accepted after sorting into the model's order is reported
// as a child-order violation, anything else as a content-model violation.
func (rd *reader) model(where, seq string, re *regexp.Regexp, specs []childSpec) {
	if re.MatchString(seq) {
		return
	}
	rank := map[byte]int{}
	for i, s := range specs {
		rank[s.letter] = i
	}
	b := []byte(seq)
	sort.SliceStable(b, func(i, j int) bool { return rank[b[i]] < rank[b[j]] })
	if re.MatchString(string(b)) {
		rd.bad(where, "child-order", "children %s in order %q, content model %s", describe(seq, specs), seq, re.String())
		return
	}
	rd.bad(where, "content-model", "children %s (%q) do not fit content model %s", describe(seq, specs), seq, re.String())
}

func describe(seq string, specs []childSpec) string {
	var l []string
	for i := 0; i < len(seq); i++ {
		name := "?"
		for _, s := range specs {
			if s.letter == seq[i] {
				name = s.local
			}
		}
		l = append(l, name)
	}
	return "(" + strings.Join(l, ",") + ")"
}

// attrs returns the un-namespaced attributes of n and flags the ones not
// allowed. Attributes in a foreign namespace are ignored.
func (rd *reader) attrs(n *xmltree.Node, where string, allowed ...string) map[string]string {
	m := map[string]string{}
	for _, a := range n.Attrs {
		if a.Space != "" {
			continue
		}
		ok := false
		for _, al := range allowed {
			if al == a.Local {
				ok = true
			}
		}
		if !ok {
			rd.bad(where+"@"+a.Local, "unknown-attribute", "attribute %s=%q is not defined for this element", a.Local, a.Value)
			continue
		}
		m[a.Local] = a.Value
	}
	return m
}

func (rd *reader) empty(n *xmltree.Node, where string) {
	if len(n.Elems()) > 0 {
		rd.bad(where, "content-model", "element declared EMPTY has element children")
	}
	if n.HasNonSpaceText() {
		rd.bad(where, "text-in-element-content", "element declared EMPTY has character data %q", n.TextContent())
	}
}

func (rd *reader) name(n *xmltree.Node, where string, at map[string]string) string {
	v, ok := at["name"]
	if !ok {
		rd.bad(where+"@name", "missing-attribute", "required attribute name is absent")
	}
	return v
}

func (rd *reader) instant(where, attr string, at map[string]string, required bool) *int64 {
	v, ok := at[attr]
	if !ok {
		if required {
			rd.bad(where+"@"+attr, "missing-attribute", "required attribute %s is absent", attr)
		}
		return nil
	}
	t, err := ParseUTC(v)
	if err != nil {
		rd.bad(where+"@"+attr, "value-grammar", "%v", err)
		return nil
	}
	return &t
}

func (rd *reader) yesNo(where, attr string, at map[string]string) (val string) {
	v, ok := at[attr]
	if !ok {
		return ""
	}
	if v != "yes" && v != "no" {
		rd.bad(where+"@"+attr, "value-grammar", "%q is neither yes nor no", v)
		return ""
	}
	return v
}

var (
	propSpecs = []childSpec{{DAV, "allprop", 'a'}, {DAV, "propname", 'n'}, {DAV, "prop", 'p'}}

	querySpecs = append(append([]childSpec{}, propSpecs...), childSpec{NS, "filter", 'f'}, childSpec{NS, "timezone", 'z'})
	queryModel = regexp.MustCompile(`^[anp]?fz?$`)

	multigetSpecs = append(append([]childSpec{}, propSpecs...), childSpec{DAV, "href", 'h'})
	multigetModel = regexp.MustCompile(`^[anp]?h+$`)

	dataSpecs = []childSpec{{NS, "comp", 'c'}, {NS, "expand", 'e'}, {NS, "limit-recurrence-set", 'r'}, {NS, "limit-freebusy-set", 'b'}}
	dataModel = regexp.MustCompile(`^c?[er]?b?$`)

	compSpecs = []childSpec{{NS, "allprop", 'A'}, {NS, "prop", 'p'}, {NS, "allcomp", 'C'}, {NS, "comp", 'c'}}
	compModel = regexp.MustCompile(`^(A|p*)(C|c*)$`)

	filterSpecs = []childSpec{{NS, "comp-filter", 'c'}}
	filterModel = regexp.MustCompile(`^c$`)

	compFilterSpecs = []childSpec{{NS, "is-not-defined", 'i'}, {NS, "time-range", 't'}, {NS, "prop-filter", 'p'}, {NS, "comp-filter", 'c'}}
	compFilterModel = regexp.MustCompile(`^(i|t?p*c*)$`)

	propFilterSpecs = []childSpec{{NS, "is-not-defined", 'i'}, {NS, "time-range", 't'}, {NS, "text-match", 'm'}, {NS, "param-filter", 'a'}}
	propFilterModel = regexp.MustCompile(`^(i|[tm]?a*)$`)

	paramFilterSpecs = []childSpec{{NS, "is-not-defined", 'i'}, {NS, "text-match", 'm'}}
	paramFilterModel = regexp.MustCompile(`^[im]?$`)
)

// Read parses and checks a request document. err is non-nil only when the
// body is not well-formed XML or its root is neither request element; every
// other problem is a Violation.
func Read(body []byte) (*Request, []Violation, error) {
	root, err := xmltree.Parse(body)
	if err != nil {
		return nil, nil, err
	}
	return FromTree(root)
}

// FromTree interprets a parsed tree.
func FromTree(root *xmltree.Node) (*Request, []Violation, error) {
	rd := &reader{}
	req := &Request{}
	switch {
	case root.Is(NS, "calendar-query"), root.Is(NS, "calendar-multiget"):
		req.Kind = root.Local
	case root.Local == "calendar-query" || root.Local == "calendar-multiget":
		rd.bad(root.Local, "namespace", "root is in namespace %q, want %q", root.Space, NS)
		req.Kind = root.Local
	default:
		return nil, nil, fmt.Errorf("rfc4791: root is %s, want {%s}calendar-query or calendar-multiget", root.Name(), NS)
	}
	rd.attrs(root, req.Kind)
	if req.Kind == "calendar-query" {
		seq, by := rd.classify(root, req.Kind, querySpecs)
		rd.model(req.Kind, seq, queryModel, querySpecs)
		rd.propReq(&req.Prop, by)
		if f := by['f']; len(f) > 0 {
			req.Filter = rd.filter(f[0])
		}
		if z := by['z']; len(z) > 0 {
			rd.attrs(z[0], "timezone")
			if len(z[0].Elems()) > 0 {
				rd.bad("timezone", "content-model", "timezone has element children")
			}
			s := z[0].TextContent()
			req.Timezone = &s
		}
	} else {
		seq, by := rd.classify(root, req.Kind, multigetSpecs)
		rd.model(req.Kind, seq, multigetModel, multigetSpecs)
		rd.propReq(&req.Prop, by)
		for _, h := range by['h'] {
			rd.attrs(h, "href")
			if len(h.Elems()) > 0 {
				rd.bad("href", "content-model", "href has element children")
			}
			t := h.TextContent()
			if _, err := davx.HrefPath(t); err != nil {
				rd.bad("href", "value-grammar", "%v", err)
			}
			if err := checkURIRef(t); err != nil {
				rd.bad("href", "value-grammar", "%v", err)
			}
			req.Hrefs = append(req.Hrefs, t)
		}
	}
	return req, rd.viol, nil
}

// checkURIRef checks that an href uses only characters RFC 3986 allows in a
// URI reference (everything else must be percent-encoded).
func checkURIRef(s string) error {
	if s == "" {
		return fmt.Errorf("empty href")
	}
	for i := 0; i < len(s); i++ {
		c := s[i]
		switch {
		case c >= 'a' && c <= 'z', c >= 'A' && c <= 'Z', c >= '0' && c <= '9':
		case strings.IndexByte("-._~:/?#[]@!$&'()*+,;=%", c) >= 0:
		default:
			return fmt.Errorf("href %q contains byte 0x%02X which a URI reference must percent-encode", s, c)
		}
	}
	return nil
}

func (rd *reader) propReq(p *PropReq, by map[byte][]*xmltree.Node) {
	switch {
	case len(by['p']) > 0:
		p.Form = "prop"
		n := by['p'][0]
		rd.attrs(n, "D:prop")
		if n.HasNonSpaceText() {
			rd.bad("D:prop", "text-in-element-content", "character data inside D:prop")
		}
		seen := false
		for i, c := range n.Elems() {
			isData := c.Is(NS, "calendar-data")
			if !isData && c.Local == "calendar-data" && c.Space != DAV {
				rd.bad("D:prop/calendar-data", "namespace", "calendar-data is in namespace %q, want %q", c.Space, NS)
				isData = true
			}
			if isData {
				if seen {
					rd.bad("D:prop", "content-model", "calendar-data requested twice")
					continue
				}
				seen = true
				p.Data = rd.calendarData(c)
				p.DataAt = i
				continue
			}
			p.Others = append(p.Others, PropName{c.Space, c.Local})
		}
	case len(by['a']) > 0:
		p.Form = "allprop"
		rd.attrs(by['a'][0], "D:allprop")
		rd.empty(by['a'][0], "D:allprop")
	case len(by['n']) > 0:
		p.Form = "propname"
		rd.attrs(by['n'][0], "D:propname")
		rd.empty(by['n'][0], "D:propname")
	}
}

func (rd *reader) rng(n *xmltree.Node, where string) *Range {
	at := rd.attrs(n, where, "start", "end")
	rd.empty(n, where)
	s := rd.instant(where, "start", at, true)
	e := rd.instant(where, "end", at, true)
	if s == nil || e == nil {
		return nil
	}
	return &Range{*s, *e}
}

func (rd *reader) calendarData(n *xmltree.Node) *CalendarData {
	cd := &CalendarData{}
	at := rd.attrs(n, "calendar-data", "content-type", "version")
	if v, ok := at["content-type"]; ok {
		cd.ContentType = &v
	}
	if v, ok := at["version"]; ok {
		cd.Version = &v
	}
	seq, by := rd.classify(n, "calendar-data", dataSpecs)
	rd.model("calendar-data", seq, dataModel, dataSpecs)
	if c := by['c']; len(c) > 0 {
		cc := rd.comp(c[0])
		cd.Comp = &cc
	}
	if e := by['e']; len(e) > 0 {
		cd.Expand = rd.rng(e[0], "expand")
	}
	if e := by['r']; len(e) > 0 {
		cd.LimitRecurrence = rd.rng(e[0], "limit-recurrence-set")
	}
	if e := by['b']; len(e) > 0 {
		cd.LimitFreeBusy = rd.rng(e[0], "limit-freebusy-set")
	}
	return cd
}

func (rd *reader) comp(n *xmltree.Node) Comp {
	var c Comp
	at := rd.attrs(n, "comp", "name")
	c.Name = rd.name(n, "comp", at)
	seq, by := rd.classify(n, "comp", compSpecs)
	rd.model("comp", seq, compModel, compSpecs)
	if a := by['A']; len(a) > 0 {
		c.AllProps = true
		rd.attrs(a[0], "comp/allprop")
		rd.empty(a[0], "comp/allprop")
	}
	for _, p := range by['p'] {
		pat := rd.attrs(p, "comp/prop", "name", "novalue")
		rd.empty(p, "comp/prop")
		c.Props = append(c.Props, PropSel{Name: rd.name(p, "comp/prop", pat), NoValue: rd.yesNo("comp/prop", "novalue", pat)})
	}
	if a := by['C']; len(a) > 0 {
		c.AllComps = true
		rd.attrs(a[0], "comp/allcomp")
		rd.empty(a[0], "comp/allcomp")
	}
	for _, cc := range by['c'] {
		c.Comps = append(c.Comps, rd.comp(cc))
	}
	return c
}

func (rd *reader) filter(n *xmltree.Node) *CompFilter {
	rd.attrs(n, "filter")
	seq, by := rd.classify(n, "filter", filterSpecs)
	rd.model("filter", seq, filterModel, filterSpecs)
	if c := by['c']; len(c) > 0 {
		cf := rd.compFilter(c[0])
		return &cf
	}
	return nil
}

func (rd *reader) isNotDefined(n *xmltree.Node, where string) {
	rd.attrs(n, where+"/is-not-defined")
	rd.empty(n, where+"/is-not-defined")
}

func (rd *reader) timeRange(n *xmltree.Node) (start, end *int64) {
	at := rd.attrs(n, "time-range", "start", "end")
	rd.empty(n, "time-range")
	start = rd.instant("time-range", "start", at, false)
	end = rd.instant("time-range", "end", at, false)
	_, hs := at["start"]
	_, he := at["end"]
	if !hs && !he {
		rd.bad("time-range", "missing-attribute", "time-range needs at least one of start and end")
	}
	return
}

func (rd *reader) textMatch(n *xmltree.Node) *TextMatch {
	at := rd.attrs(n, "text-match", "collation", "negate-condition")
	if len(n.Elems()) > 0 {
		rd.bad("text-match", "content-model", "text-match (#PCDATA) has element children")
	}
	tm := &TextMatch{Text: n.TextContent()}
	if v, ok := at["collation"]; ok {
		tm.Collation = &v
	}
	switch rd.yesNo("text-match", "negate-condition", at) {
	case "yes":
		tm.Negate = true
	case "no":
		tm.ExplicitNo = true
	}
	return tm
}

func (rd *reader) compFilter(n *xmltree.Node) CompFilter {
	var f CompFilter
	at := rd.attrs(n, "comp-filter", "name")
	f.Name = rd.name(n, "comp-filter", at)
	seq, by := rd.classify(n, "comp-filter", compFilterSpecs)
	rd.model("comp-filter", seq, compFilterModel, compFilterSpecs)
	if i := by['i']; len(i) > 0 {
		f.IsNotDefined = true
		rd.isNotDefined(i[0], "comp-filter")
	}
	if t := by['t']; len(t) > 0 {
		f.Start, f.End = rd.timeRange(t[0])
	}
	for _, p := range by['p'] {
		f.Props = append(f.Props, rd.propFilter(p))
	}
	for _, c := range by['c'] {
		f.Comps = append(f.Comps, rd.compFilter(c))
	}
	return f
}

func (rd *reader) propFilter(n *xmltree.Node) PropFilter {
	var f PropFilter
	at := rd.attrs(n, "prop-filter", "name")
	f.Name = rd.name(n, "prop-filter", at)
	seq, by := rd.classify(n, "prop-filter", propFilterSpecs)
	rd.model("prop-filter", seq, propFilterModel, propFilterSpecs)
	if i := by['i']; len(i) > 0 {
		f.IsNotDefined = true
		rd.isNotDefined(i[0], "prop-filter")
	}
	if t := by['t']; len(t) > 0 {
		f.Start, f.End = rd.timeRange(t[0])
	}
	if m := by['m']; len(m) > 0 {
		f.Text = rd.textMatch(m[0])
	}
	for _, p := range by['a'] {
		f.Params = append(f.Params, rd.paramFilter(p))
	}
	return f
}

func (rd *reader) paramFilter(n *xmltree.Node) ParamFilter {
	var f ParamFilter
	at := rd.attrs(n, "param-filter", "name")
	f.Name = rd.name(n, "param-filter", at)
	seq, by := rd.classify(n, "param-filter", paramFilterSpecs)
	rd.model("param-filter", seq, paramFilterModel, paramFilterSpecs)
	if i := by['i']; len(i) > 0 {
		f.IsNotDefined = true
		rd.isNotDefined(i[0], "param-filter")
	}
	if m := by['m']; len(m) > 0 {
		f.Text = rd.textMatch(m[0])
	}
	return f
}

// ---------------------------------------------------------------------------
// Writer.

func el(space, local string, children ...*xmltree.Node) *xmltree.Node {
	return xmltree.El(space, local, children...)
}

// Tree builds the request document for r. The caller is responsible for r
// being expressible (Conformant reports whether it is); Tree writes exactly
// what r says, in DTD order.
func Tree(r *Request) *xmltree.Node {
	root := el(NS, r.Kind)
	switch r.Prop.Form {
	case "allprop":
		root.Add(el(DAV, "allprop"))
	case "propname":
		root.Add(el(DAV, "propname"))
	case "prop":
		p := el(DAV, "prop")
		at := r.Prop.DataAt
		if at > len(r.Prop.Others) {
			at = len(r.Prop.Others)
		}
		for i, o := range r.Prop.Others {
			if i == at && r.Prop.Data != nil {
				p.Add(dataTree(r.Prop.Data))
			}
			p.Add(el(o.Space, o.Local))
		}
		if at >= len(r.Prop.Others) && r.Prop.Data != nil {
			p.Add(dataTree(r.Prop.Data))
		}
		root.Add(p)
	}
	if r.Kind == "calendar-query" {
		f := el(NS, "filter")
		if r.Filter != nil {
			f.Add(compFilterTree(r.Filter))
		}
		root.Add(f)
		if r.Timezone != nil {
			root.Add(el(NS, "timezone", xmltree.Txt(*r.Timezone)))
		}
	} else {
		for _, h := range r.Hrefs {
			root.Add(el(DAV, "href", xmltree.Txt(h)))
		}
	}
	return root
}

func rngTree(local string, r *Range) *xmltree.Node {
	return el(NS, local).With("start", FormatUTC(r.Start), "end", FormatUTC(r.End))
}

func dataTree(d *CalendarData) *xmltree.Node {
	n := el(NS, "calendar-data")
	if d.ContentType != nil {
		n.With("content-type", *d.ContentType)
	}
	if d.Version != nil {
		n.With("version", *d.Version)
	}
	if d.Comp != nil {
		n.Add(compTree(d.Comp))
	}
	if d.Expand != nil {
		n.Add(rngTree("expand", d.Expand))
	}
	if d.LimitRecurrence != nil {
		n.Add(rngTree("limit-recurrence-set", d.LimitRecurrence))
	}
	if d.LimitFreeBusy != nil {
		n.Add(rngTree("limit-freebusy-set", d.LimitFreeBusy))
	}
	return n
}

func compTree(c *Comp) *xmltree.Node {
	n := el(NS, "comp").With("name", c.Name)
	if c.AllProps {
		n.Add(el(NS, "allprop"))
	}
	for _, p := range c.Props {
		pn := el(NS, "prop").With("name", p.Name)
		if p.NoValue != "" {
			pn.With("novalue", p.NoValue)
		}
		n.Add(pn)
	}
	if c.AllComps {
		n.Add(el(NS, "allcomp"))
	}
	for i := range c.Comps {
		n.Add(compTree(&c.Comps[i]))
	}
	return n
}

func timeRangeTree(s, e *int64) *xmltree.Node {
	if s == nil && e == nil {
		return nil
	}
	n := el(NS, "time-range")
	if s != nil {
		n.With("start", FormatUTC(*s))
	}
	if e != nil {
		n.With("end", FormatUTC(*e))
	}
	return n
}

func textMatchTree(t *TextMatch) *xmltree.Node {
	if t == nil {
		return nil
	}
	n := el(NS, "text-match")
	if t.Collation != nil {
		n.With("collation", *t.Collation)
	}
	if t.Negate {
		n.With("negate-condition", "yes")
	} else if t.ExplicitNo {
		n.With("negate-condition", "no")
	}
	if t.Text != "" {
		n.Add(xmltree.Txt(t.Text))
	}
	return n
}

func compFilterTree(f *CompFilter) *xmltree.Node {
	n := el(NS, "comp-filter").With("name", f.Name)
	if f.IsNotDefined {
		n.Add(el(NS, "is-not-defined"))
	}
	n.Add(timeRangeTree(f.Start, f.End))
	for i := range f.Props {
		n.Add(propFilterTree(&f.Props[i]))
	}
	for i := range f.Comps {
		n.Add(compFilterTree(&f.Comps[i]))
	}
	return n
}

func propFilterTree(f *PropFilter) *xmltree.Node {
	n := el(NS, "prop-filter").With("name", f.Name)
	if f.IsNotDefined {
		n.Add(el(NS, "is-not-defined"))
	}
	n.Add(timeRangeTree(f.Start, f.End))
	n.Add(textMatchTree(f.Text))
	for i := range f.Params {
		p := &f.Params[i]
		pn := el(NS, "param-filter").With("name", p.Name)
		if p.IsNotDefined {
			pn.Add(el(NS, "is-not-defined"))
		}
		pn.Add(textMatchTree(p.Text))
		n.Add(pn)
	}
	return n
}

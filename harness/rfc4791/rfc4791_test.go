package rfc4791

import (
	"encoding/json"
	"math/rand"
	"strings"
	"testing"
	"time"

	"github.com/emersion/go-webdav/verifharness/xmltree"
)

// The hand-written calendar arithmetic agrees with package time.
func TestUTCAgainstTime(t *testing.T) {
	r := rand.New(rand.NewSource(1))
	min := time.Date(0, 1, 1, 0, 0, 0, 0, time.UTC).Unix()
	max := time.Date(9999, 12, 31, 23, 59, 59, 0, time.UTC).Unix()
	vals := []int64{min, max, 0, -1, 1, 951782400, 68169600 - 1, -62135596800}
	for i := 0; i < 200000; i++ {
		vals = append(vals, min+r.Int63n(max-min))
	}
	for _, u := range vals {
		want := time.Unix(u, 0).UTC().Format("20060102T150405Z")
		got := FormatUTC(u)
		if got != want {
			t.Fatalf("FormatUTC(%d) = %s, want %s", u, got, want)
		}
		back, err := ParseUTC(got)
		if err != nil || back != u {
			t.Fatalf("ParseUTC(%s) = %d, %v; want %d", got, back, err, u)
		}
	}
	for _, bad := range []string{"", "20060102T150405", "20060102T150405z", "2006-01-02T15:04:05Z", "20060102 150405Z", "20061302T150405Z",
		"20060230T150405Z", "20060102T240000Z", "20060102T156005Z", "20060102T150461Z", " 20060102T150405Z", "20060102T150405Z ", "2006010２T150405Z", "20060100T000000Z"} {
		if _, err := ParseUTC(bad); err == nil {
			t.Errorf("ParseUTC(%q) accepted", bad)
		}
	}
	if _, err := ParseUTC("20161231T235960Z"); err != nil {
		t.Errorf("leap second refused: %v", err)
	}
}

func rules(v []Violation) string {
	var l []string
	for _, x := range v {
		l = append(l, x.Where+"|"+x.Rule)
	}
	return strings.Join(l, " ; ")
}

const c = `xmlns:C="urn:ietf:params:xml:ns:caldav" xmlns:D="DAV:"`

func TestReaderAcceptsRFCExamples(t *testing.T) {
	// RFC 4791 section 7.8.1 (abridged) and 7.9.1.
	docs := []string{
		`<?xml version="1.0" encoding="utf-8" ?>
<C:calendar-query xmlns:D="DAV:" xmlns:C="urn:ietf:params:xml:ns:caldav">
  <D:prop>
    <D:getetag/>
    <C:calendar-data>
      <C:comp name="VCALENDAR">
        <C:prop name="VERSION"/>
        <C:comp name="VEVENT">
          <C:prop name="SUMMARY"/>
          <C:prop name="UID"/>
        </C:comp>
        <C:comp name="VTIMEZONE"/>
      </C:comp>
    </C:calendar-data>
  </D:prop>
  <C:filter>
    <C:comp-filter name="VCALENDAR">
      <C:comp-filter name="VEVENT">
        <C:time-range start="20060104T000000Z" end="20060105T000000Z"/>
      </C:comp-filter>
    </C:comp-filter>
  </C:filter>
</C:calendar-query>`,
		`<C:calendar-query ` + c + `><D:prop><C:calendar-data><C:limit-recurrence-set start="20060103T000000Z" end="20060105T000000Z"/></C:calendar-data></D:prop>
<C:filter><C:comp-filter name="VCALENDAR"><C:comp-filter name="VTODO"><C:prop-filter name="COMPLETED"><C:is-not-defined/></C:prop-filter>
<C:prop-filter name="STATUS"><C:text-match negate-condition="yes">CANCELLED</C:text-match></C:prop-filter></C:comp-filter></C:comp-filter></C:filter></C:calendar-query>`,
		`<C:calendar-query ` + c + `><C:filter><C:comp-filter name="VCALENDAR"><C:comp-filter name="VEVENT"><C:prop-filter name="ATTENDEE">
<C:text-match collation="i;ascii-casemap">mailto:lisa@example.com</C:text-match><C:param-filter name="PARTSTAT"><C:text-match collation="i;ascii-casemap">NEEDS-ACTION</C:text-match></C:param-filter>
</C:prop-filter></C:comp-filter></C:comp-filter></C:filter><C:timezone>BEGIN:VCALENDAR</C:timezone></C:calendar-query>`,
		`<C:calendar-multiget ` + c + `><D:prop><D:getetag/><C:calendar-data/></D:prop><D:href>/bernard/work/abcd1.ics</D:href><D:href>/bernard/work/mtg1.ics</D:href></C:calendar-multiget>`,
		`<C:calendar-multiget ` + c + `><D:allprop/><D:href>http://cal.example.com/a%20b.ics</D:href></C:calendar-multiget>`,
	}
	for i, d := range docs {
		req, viol, err := Read([]byte(d))
		if err != nil || len(viol) > 0 {
			t.Errorf("doc %d: err=%v violations=%s", i, err, rules(viol))
			continue
		}
		// writer/reader round trip through a random lexical form
		for seed := int64(1); seed < 20; seed++ {
			out := xmltree.Render(Tree(req), xmltree.FullLex(rand.New(rand.NewSource(seed))))
			back, viol, err := Read(out)
			a, _ := json.Marshal(req)
			b, _ := json.Marshal(back)
			if err != nil || len(viol) > 0 || string(a) != string(b) {
				t.Errorf("doc %d seed %d: err=%v violations=%s\n%s\n%s\n%s", i, seed, err, rules(viol), a, b, out)
			}
		}
	}
	req, _, _ := Read([]byte(docs[0]))
	if req.Filter.Comps[0].Name != "VEVENT" || *req.Filter.Comps[0].Start != 1136332800 || req.Prop.DataAt != 1 ||
		req.Prop.Data.Comp.Comps[0].Props[1].Name != "UID" {
		t.Errorf("decoded wrongly: %+v", req)
	}
}

func TestReaderFlags(t *testing.T) {
	q := func(inner string) string {
		return `<C:calendar-query ` + c + `>` + inner + `</C:calendar-query>`
	}
	f := func(inner string) string {
		return q(`<C:filter><C:comp-filter name="VCALENDAR">` + inner + `</C:comp-filter></C:filter>`)
	}
	cases := []struct{ doc, want string }{
		{`<C:calendar-multiget ` + c + `><D:href>/a</D:href><D:prop><D:getetag/></D:prop></C:calendar-multiget>`, "calendar-multiget|child-order"},
		{`<C:calendar-multiget ` + c + `><D:prop><D:getetag/></D:prop></C:calendar-multiget>`, "calendar-multiget|content-model"},
		{`<C:calendar-multiget ` + c + `><D:href>/a b</D:href></C:calendar-multiget>`, "href|value-grammar"},
		{`<C:calendar-multiget ` + c + `><D:href>/a%zz</D:href></C:calendar-multiget>`, "href|value-grammar"},
		{q(`<C:filter><C:comp-filter name="VCALENDAR"/></C:filter><D:prop/>`), "calendar-query|child-order"},
		{q(`<D:prop/>`), "calendar-query|content-model"},
		{q(`<D:prop/><D:allprop/><C:filter><C:comp-filter name="VCALENDAR"/></C:filter>`), "calendar-query|content-model"},
		{q(`<C:filter/>`), "filter|content-model"},
		{q(`<C:filter><C:comp-filter/></C:filter>`), "comp-filter@name|missing-attribute"},
		{q(`<C:filter><C:comp-filter nam="x" name="VCALENDAR"/></C:filter>`), "comp-filter@nam|unknown-attribute"},
		{q(`<C:filter><D:comp-filter name="VCALENDAR"/></C:filter>`), "filter/comp-filter|namespace"},
		{q(`<C:filter><C:compfilter name="VCALENDAR"/></C:filter>`), "filter|unknown-element ; filter|content-model"},
		{f(`<C:is-not-defined/><C:comp-filter name="VEVENT"/>`), "comp-filter|content-model"},
		{f(`<C:comp-filter name="VEVENT"/><C:prop-filter name="UID"/>`), "comp-filter|child-order"},
		{f(`<C:prop-filter name="UID"/><C:time-range start="20060104T000000Z"/>`), "comp-filter|child-order"},
		{f(`<C:time-range/>`), "time-range|missing-attribute"},
		{f(`<C:time-range start="20060104T000000"/>`), "time-range@start|value-grammar"},
		{f(`<C:time-range start="20060104T000000+0100"/>`), "time-range@start|value-grammar"},
		{f(`<C:time-range start="20060104T000000Z" stop="20060104T000000Z"/>`), "time-range@stop|unknown-attribute"},
		{f(`<C:prop-filter name="UID"><C:time-range start="20060104T000000Z"/><C:text-match>x</C:text-match></C:prop-filter>`), "prop-filter|content-model"},
		{f(`<C:prop-filter name="UID"><C:param-filter name="X"/><C:text-match>x</C:text-match></C:prop-filter>`), "prop-filter|child-order"},
		{f(`<C:prop-filter name="UID"><C:text-match negate-condition="true">x</C:text-match></C:prop-filter>`), "text-match@negate-condition|value-grammar"},
		{f(`<C:prop-filter name="UID"><C:param-filter name="X"><C:is-not-defined/><C:text-match>x</C:text-match></C:param-filter></C:prop-filter>`), "param-filter|content-model"},
		{f(`stray`), "comp-filter|text-in-element-content"},
		{q(`<D:prop><C:calendar-data><C:expand start="20060104T000000Z"/></C:calendar-data></D:prop><C:filter><C:comp-filter name="VCALENDAR"/></C:filter>`), "expand@end|missing-attribute"},
		{q(`<D:prop><C:calendar-data><C:expand start="20060104T000000Z" end="20060105T000000Z"/><C:comp name="VCALENDAR"/></C:calendar-data></D:prop><C:filter><C:comp-filter name="VCALENDAR"/></C:filter>`), "calendar-data|child-order"},
		{q(`<D:prop><C:calendar-data><C:comp name="VCALENDAR"><C:allprop/><C:prop name="UID"/></C:comp></C:calendar-data></D:prop><C:filter><C:comp-filter name="VCALENDAR"/></C:filter>`), "comp|content-model"},
		{q(`<D:prop><C:calendar-data><C:comp name="VCALENDAR"><C:comp name="VEVENT"/><C:prop name="UID"/></C:comp></C:calendar-data></D:prop><C:filter><C:comp-filter name="VCALENDAR"/></C:filter>`), "comp|child-order"},
		{q(`<D:prop><C:calendar-data><C:comp name="VCALENDAR"><allprop xmlns=""/></C:comp></C:calendar-data></D:prop><C:filter><C:comp-filter name="VCALENDAR"/></C:filter>`), "comp/allprop|namespace"},
		{q(`<D:prop><C:calendar-data><C:comp name="VCALENDAR"><C:prop name="UID" novalue="1"/></C:comp></C:calendar-data></D:prop><C:filter><C:comp-filter name="VCALENDAR"/></C:filter>`), "comp/prop@novalue|value-grammar"},
	}
	for i, cs := range cases {
		_, viol, err := Read([]byte(cs.doc))
		if err != nil {
			t.Errorf("case %d: %v", i, err)
			continue
		}
		if got := rules(viol); got != cs.want {
			t.Errorf("case %d: violations %q, want %q\n%s", i, got, cs.want, cs.doc)
		}
	}
	if _, _, err := Read([]byte(`<D:propfind xmlns:D="DAV:"/>`)); err == nil {
		t.Errorf("foreign root accepted")
	}
}

// Package davtree is the abstract RFC 4918 resource tree the file server is
// compared with (DESIGN.md section 6 C01 and Appendix B). It knows nothing of
// go-webdav: a tree is a map from path to node, Step gives the acceptable
// outcomes of one request.
package davtree

import (
	"fmt"
	"sort"
	"strings"

	"github.com/emersion/go-webdav/verifharness/mon"
)

type Kind int

const (
	Absent Kind = iota
	File
	Coll
)

func (k Kind) String() string { return [...]string{"absent", "file", "coll"}[k] }

type Node struct {
	Dir  bool
	Data string
}

// Tree maps clean absolute paths ("/a/b", never a trailing slash) to nodes.
// The root "/" is always a collection and is not stored.
type Tree map[string]Node

// Files lists the paths of the files, sorted.
func (t Tree) Files() []string {
	var l []string
	for p, n := range t {
		if !n.Dir {
			l = append(l, p)
		}
	}
	sort.Strings(l)
	return l
}

func (t Tree) Clone() Tree {
	c := make(Tree, len(t))
	for k, v := range t {
		c[k] = v
	}
	return c
}

func (t Tree) Kind(p string) Kind {
	if p == "/" {
		return Coll
	}
	n, ok := t[p]
	switch {
	case !ok:
		return Absent
	case n.Dir:
		return Coll
	}
	return File
}

// Parent of "/a/b" is "/a", of "/a" is "/".
func Parent(p string) string {
	i := strings.LastIndex(p, "/")
	if i <= 0 {
		return "/"
	}
	return p[:i]
}

// Under reports whether p lies strictly below anc.
func Under(p, anc string) bool {
	if anc == "/" {
		return p != "/"
	}
	return strings.HasPrefix(p, anc+"/")
}

func (t Tree) HasChildren(p string) bool {
	for k := range t {
		if Under(k, p) {
			return true
		}
	}
	return false
}

func (t Tree) RemoveSubtree(p string) {
	for k := range t {
		if k == p || Under(k, p) {
			delete(t, k)
		}
	}
}

// CopyFrom reproduces src's subtree s at d in t (deep or bare).
func (t Tree) CopyFrom(src Tree, s, d string, deep bool) {
	n := src[s]
	t[d] = n
	if !n.Dir || !deep {
		return
	}
	for k, v := range src {
		if Under(k, s) {
			t[d+k[len(s):]] = v
		}
	}
}

// Members lists p itself plus direct members (depth 1) or all descendants
// (depth -1); depth 0 gives p only.
func (t Tree) Scope(p string, depth int) []string {
	l := []string{p}
	if depth == 0 || t.Kind(p) != Coll {
		return l
	}
	for k := range t {
		if !Under(k, p) {
			continue
		}
		if depth == 1 && Parent(k) != p {
			continue
		}
		l = append(l, k)
	}
	sort.Strings(l)
	return l
}

// Shape renders the tree in the format of mon.Snap.Shape (relative names,
// root as "").
func (t Tree) Shape() string {
	keys := make([]string, 0, len(t)+1)
	for k := range t {
		keys = append(keys, k[1:])
	}
	keys = append(keys, "")
	sort.Strings(keys)
	var sb strings.Builder
	for _, k := range keys {
		if k == "" {
			fmt.Fprintf(&sb, "%q/\n", k)
			continue
		}
		n := t["/"+k]
		if n.Dir {
			fmt.Fprintf(&sb, "%q/\n", k)
		} else {
			fmt.Fprintf(&sb, "%q=%s\n", k, mon.DataKey(n.Data))
		}
	}
	return sb.String()
}

// Req is one request in model terms. Paths are decoded, clean and absolute.
type Req struct {
	Method string `json:"method"`
	Path   string `json:"path"`
	// TrailingSlash: the request path is spelt with a trailing slash (only
	// used on collections or absent resources).
	TrailingSlash bool `json:"trailing_slash,omitempty"`
	// HasBody/Body: PUT or MKCOL body.
	HasBody     bool   `json:"has_body,omitempty"`
	Body        string `json:"body,omitempty"`
	ContentType string `json:"content_type,omitempty"`
	Depth       string `json:"depth,omitempty"`     // "" = header absent
	Overwrite   string `json:"overwrite,omitempty"` // "" = header absent
	// PathForm: "" (canonical) or a non-canonical spelling of the same request
	// path: "dotseg" (/a/./b), "dblslash" (/a//b), "updown" (/zz/../a/b).
	PathForm string `json:"path_form,omitempty"`
	// DestForm: "path", "url", "slash", "missing", "garbage", "relative",
	// "nopath", or a non-canonical spelling of the destination path: "dotseg",
	// "dblslash", "updown"; or an absolute URI / network-path reference whose
	// authority is another spelling of this server's: "url-upper" (host in upper
	// case), "url-port" (the default port written out), "netpath" (//host/path).
	DestForm string `json:"dest_form,omitempty"`
	Dest     string `json:"dest,omitempty"`
	// PropBody: "" (empty body), "five" (the client's five-property request),
	// "allprop" / "propname" (the XML forms), or "names:<set>" - a <prop>
	// request for one of the explorer's named sets of property names (live
	// DAV: names next to foreign and near-miss namespaces).
	PropBody string `json:"prop_body,omitempty"`
	// Extra: further request header fields (name, value) that the RFC 4918
	// model has no rule for (integrity announcements, HTTP/1.1 conditionals on
	// dates, content codings, vendor extensions...). A request that carries any
	// is outside the model's universe; ExtraTag names the family for keys.
	Extra    [][2]string `json:"extra,omitempty"`
	ExtraTag string      `json:"extra_tag,omitempty"`
	// BreakAfter: the request body breaks off with a read error after that
	// many bytes (PUT). Outside the model's universe.
	BreakAfter *int `json:"break_after,omitempty"`
}

// Outcome is one acceptable result: a status predicate and the tree after.
type Outcome struct {
	Codes   []int // acceptable codes (empty with Any4xx)
	Any4xx  bool
	Tree    Tree
	Refusal bool
}

func (o Outcome) Accepts(code int) bool {
	if o.Any4xx && code >= 400 && code <= 499 {
		return true
	}
	for _, c := range o.Codes {
		if c == code {
			return true
		}
	}
	return false
}

// Describe renders the status expectation, e.g. "201", "404/409", "4xx".
func Describe(outs []Outcome) string {
	var parts []string
	for _, o := range outs {
		var s []string
		if o.Any4xx {
			s = append(s, "4xx")
		}
		for _, c := range o.Codes {
			s = append(s, fmt.Sprint(c))
		}
		d := strings.Join(s, "/")
		if o.Refusal {
			d += ":unchanged"
		} else {
			d += ":effect"
		}
		parts = append(parts, d)
	}
	return strings.Join(parts, " or ")
}

var knownMethods = map[string]bool{"OPTIONS": true, "GET": true, "HEAD": true, "PUT": true, "DELETE": true,
	"MKCOL": true, "COPY": true, "MOVE": true, "PROPFIND": true}

// InUniverse reports whether the model has an opinion about the request.
// Mutations that involve the root, PROPPATCH and LOCK are outside it.
func InUniverse(r Req) bool {
	if len(r.Extra) > 0 || r.BreakAfter != nil {
		return false
	}
	switch r.Method {
	case "PROPPATCH", "LOCK", "UNLOCK":
		return false
	case "PUT", "DELETE", "MKCOL":
		return r.Path != "/"
	case "COPY", "MOVE":
		if r.Path == "/" {
			return false
		}
		if DestNamesPath(r.DestForm) && r.Dest == "/" {
			return false
		}
	}
	return true
}

// DestNamesPath reports whether the Destination form denotes the path Dest.
func DestNamesPath(form string) bool {
	switch form {
	case "path", "url", "slash", "dotseg", "dblslash", "updown", "url-upper", "url-port", "netpath":
		return true
	}
	return false
}

// Spell renders p in a non-canonical spelling that cleans to p.
func Spell(p, form string) string {
	i := strings.LastIndex(p, "/")
	switch form {
	case "dotseg":
		return p[:i] + "/." + p[i:]
	case "dblslash":
		if i == 0 {
			return "/./" + p
		}
		return p[:i] + "/" + p[i:]
	case "updown":
		return "/zz/.." + p
	}
	return p
}

func validDepth(s string) bool { return s == "0" || s == "1" || s == "infinity" }

// Step returns the acceptable outcomes of r on t, or nil when the request is
// outside the model's universe. Exactly one alternative must match what the
// server did (status accepted and tree equal).
func Step(t Tree, r Req) []Outcome {
	if !InUniverse(r) {
		return nil
	}
	refuse := func(codes ...int) []Outcome {
		return []Outcome{{Codes: codes, Tree: t, Refusal: true}}
	}
	if !knownMethods[r.Method] {
		return refuse(405)
	}
	k := t.Kind(r.Path)
	par := t.Kind(Parent(r.Path))
	switch r.Method {
	case "OPTIONS":
		return []Outcome{{Codes: []int{200, 204}, Tree: t, Refusal: true}}
	case "GET":
		switch k {
		case Absent:
			return refuse(404)
		case Coll:
			return refuse(405)
		}
		return []Outcome{{Codes: []int{200}, Tree: t, Refusal: true}}
	case "HEAD":
		switch k {
		case Absent:
			return refuse(404)
		case Coll:
			return []Outcome{{Codes: []int{405, 200, 204}, Tree: t, Refusal: true}}
		}
		return []Outcome{{Codes: []int{200}, Tree: t, Refusal: true}}
	case "PUT":
		var codes []int
		if k == Coll {
			codes = append(codes, 405)
		}
		if par != Coll {
			codes = append(codes, 409)
		}
		if len(codes) > 0 {
			return refuse(codes...)
		}
		nt := t.Clone()
		nt[r.Path] = Node{Data: r.Body}
		if k == Absent {
			return []Outcome{{Codes: []int{201}, Tree: nt}}
		}
		return []Outcome{{Codes: []int{200, 204}, Tree: nt}}
	case "DELETE":
		if k == Absent {
			return refuse(404)
		}
		nt := t.Clone()
		nt.RemoveSubtree(r.Path)
		return []Outcome{{Codes: []int{200, 204}, Tree: nt}}
	case "MKCOL":
		var codes []int
		if r.ContentType != "" {
			codes = append(codes, 415)
		}
		if k != Absent {
			codes = append(codes, 405)
		}
		if par != Coll {
			codes = append(codes, 409)
		}
		if len(codes) > 0 {
			if r.HasBody && r.ContentType == "" {
				codes = append(codes, 415)
			}
			return refuse(codes...)
		}
		nt := t.Clone()
		nt[r.Path] = Node{Dir: true}
		outs := []Outcome{{Codes: []int{201}, Tree: nt}}
		if r.HasBody {
			// body bytes without a Content-Type: 415 or carried out
			outs = append(outs, Outcome{Codes: []int{415}, Tree: t, Refusal: true})
		}
		return outs
	case "PROPFIND":
		var codes []int
		if r.Depth != "" && !validDepth(r.Depth) {
			codes = append(codes, 400)
		}
		if k == Absent {
			codes = append(codes, 404)
		}
		if len(codes) > 0 {
			return refuse(codes...)
		}
		return []Outcome{{Codes: []int{207}, Tree: t, Refusal: true}}
	case "COPY", "MOVE":
		return stepCopyMove(t, r)
	}
	return nil
}

func stepCopyMove(t Tree, r Req) []Outcome {
	var codes []int
	any4 := false
	bad := false
	switch r.DestForm {
	case "missing", "garbage", "relative", "nopath":
		bad = true
	}
	if r.Overwrite != "" && r.Overwrite != "T" && r.Overwrite != "F" {
		bad = true
	}
	if r.Depth != "" && !validDepth(r.Depth) {
		bad = true
	}
	if r.Method == "COPY" && r.Depth == "1" {
		bad = true
	}
	if r.Method == "MOVE" && (r.Depth == "0" || r.Depth == "1") {
		bad = true
	}
	if bad {
		codes = append(codes, 400)
	}
	s := r.Path
	sk := t.Kind(s)
	if sk == Absent {
		codes = append(codes, 404)
	}
	destKnown := DestNamesPath(r.DestForm)
	var successAlt *Outcome
	if destKnown {
		d := r.Dest
		dk := t.Kind(d)
		switch {
		case d == s:
			codes = append(codes, 403)
			if r.Overwrite == "F" {
				codes = append(codes, 412) // the destination exists and Overwrite is F: also applies
			}
		case Under(s, d): // destination is an ancestor of the source
			any4 = true
		case Under(d, s): // destination inside the source
			any4 = true
		}
		if d != s && !Under(s, d) {
			if t.Kind(Parent(d)) != Coll {
				codes = append(codes, 409)
			}
			if dk != Absent && r.Overwrite == "F" {
				codes = append(codes, 412)
			}
		}
		if len(codes) == 0 && (!any4 || (r.Method == "COPY" && Under(d, s))) {
			// success row (for COPY into own descendant: with the
			// pre-request source)
			deep := !(r.Method == "COPY" && r.Depth == "0")
			nt := t.Clone()
			if dk != Absent {
				nt.RemoveSubtree(d)
			}
			nt.CopyFrom(t, s, d, deep)
			if r.Method == "MOVE" {
				nt.RemoveSubtree(s)
			}
			code := 201
			if dk != Absent {
				code = 204
			}
			successAlt = &Outcome{Codes: []int{code}, Tree: nt}
		}
	}
	var outs []Outcome
	if len(codes) > 0 || any4 {
		outs = append(outs, Outcome{Codes: codes, Any4xx: any4, Tree: t, Refusal: true})
	}
	if successAlt != nil {
		outs = append(outs, *successAlt)
	}
	return outs
}

// TargetClass names the state of a path for finding keys.
func (t Tree) TargetClass(p string) string {
	switch t.Kind(p) {
	case File:
		return "file"
	case Coll:
		if p == "/" {
			return "root"
		}
		if t.HasChildren(p) {
			return "coll"
		}
		return "empty-coll"
	}
	// absent
	switch t.Kind(Parent(p)) {
	case Coll:
		return "absent"
	case File:
		return "absent-below-file"
	}
	return "absent-parent-missing"
}

// DestRelation names the relation of the destination to the source.
func (t Tree) DestRelation(s, d string) string {
	switch {
	case d == s:
		return "self"
	case Under(s, d):
		return "ancestor"
	case Under(d, s):
		return "descendant"
	}
	return t.TargetClass(d)
}

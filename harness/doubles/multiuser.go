package doubles

import (
	"context"
	"fmt"
	"net/http"

	"github.com/emersion/go-ical"
	"github.com/emersion/go-vcard"
	"github.com/emersion/go-webdav"
	"github.com/emersion/go-webdav/caldav"
	"github.com/emersion/go-webdav/carddav"
)

// Multi-user doubles: ONE handler whose backend takes the user from the
// request context (as real multi-user servers do).

type userKey struct{}

// UserOf returns the user WithUser put into the context ("" if none).
func UserOf(ctx context.Context) string { u, _ := ctx.Value(userKey{}).(string); return u }

// UserHeader names the user of a request.
const UserHeader = "X-Verif-User"

// WithUser is the tiny authentication middleware in front of the handler.
func WithUser(h http.Handler) http.Handler {
	return http.HandlerFunc(func(w http.ResponseWriter, r *http.Request) {
		h.ServeHTTP(w, r.WithContext(context.WithValue(r.Context(), userKey{}, r.Header.Get(UserHeader))))
	})
}

// AsUser stamps every request of one client with its user.
type AsUser struct {
	User string
	Next http.RoundTripper
}

func (u *AsUser) RoundTrip(req *http.Request) (*http.Response, error) {
	r2 := req.Clone(req.Context())
	r2.Header.Set(UserHeader, u.User)
	return u.Next.RoundTrip(r2)
}

func (u *AsUser) Do(req *http.Request) (*http.Response, error) { return u.RoundTrip(req) }

func noUser() error {
	return webdav.NewHTTPError(http.StatusUnauthorized, fmt.Errorf("no such user"))
}

// MultiCal dispatches every backend operation to the double of the user in
// the context.
type MultiCal struct {
	Users map[string]*CalBackend
	// Delay, when set, runs at the start of every backend operation (a slow
	// backend; widens the interleavings inside the handler).
	Delay func()
}

func (m *MultiCal) pick(ctx context.Context) *CalBackend {
	if m.Delay != nil {
		m.Delay()
	}
	u, _ := ctx.Value(userKey{}).(string)
	return m.Users[u]
}

func (m *MultiCal) CurrentUserPrincipal(ctx context.Context) (string, error) {
	if b := m.pick(ctx); b != nil {
		return b.CurrentUserPrincipal(ctx)
	}
	return "", noUser()
}
func (m *MultiCal) CalendarHomeSetPath(ctx context.Context) (string, error) {
	if b := m.pick(ctx); b != nil {
		return b.CalendarHomeSetPath(ctx)
	}
	return "", noUser()
}
func (m *MultiCal) CreateCalendar(ctx context.Context, cal *caldav.Calendar) error {
	if b := m.pick(ctx); b != nil {
		return b.CreateCalendar(ctx, cal)
	}
	return noUser()
}
func (m *MultiCal) ListCalendars(ctx context.Context) ([]caldav.Calendar, error) {
	if b := m.pick(ctx); b != nil {
		return b.ListCalendars(ctx)
	}
	return nil, noUser()
}
func (m *MultiCal) GetCalendar(ctx context.Context, path string) (*caldav.Calendar, error) {
	if b := m.pick(ctx); b != nil {
		return b.GetCalendar(ctx, path)
	}
	return nil, noUser()
}
func (m *MultiCal) GetCalendarObject(ctx context.Context, path string, req *caldav.CalendarCompRequest) (*caldav.CalendarObject, error) {
	if b := m.pick(ctx); b != nil {
		return b.GetCalendarObject(ctx, path, req)
	}
	return nil, noUser()
}
func (m *MultiCal) ListCalendarObjects(ctx context.Context, path string, req *caldav.CalendarCompRequest) ([]caldav.CalendarObject, error) {
	if b := m.pick(ctx); b != nil {
		return b.ListCalendarObjects(ctx, path, req)
	}
	return nil, noUser()
}
func (m *MultiCal) QueryCalendarObjects(ctx context.Context, path string, q *caldav.CalendarQuery) ([]caldav.CalendarObject, error) {
	if b := m.pick(ctx); b != nil {
		return b.QueryCalendarObjects(ctx, path, q)
	}
	return nil, noUser()
}
func (m *MultiCal) PutCalendarObject(ctx context.Context, path string, cal *ical.Calendar, opts *caldav.PutCalendarObjectOptions) (*caldav.CalendarObject, error) {
	if b := m.pick(ctx); b != nil {
		return b.PutCalendarObject(ctx, path, cal, opts)
	}
	return nil, noUser()
}
func (m *MultiCal) DeleteCalendarObject(ctx context.Context, path string) error {
	if b := m.pick(ctx); b != nil {
		return b.DeleteCalendarObject(ctx, path)
	}
	return noUser()
}

var _ caldav.Backend = (*MultiCal)(nil)

type MultiCard struct {
	Users map[string]*CardBackend
	// Delay: see MultiCal.
	Delay func()
}

func (m *MultiCard) pick(ctx context.Context) *CardBackend {
	if m.Delay != nil {
		m.Delay()
	}
	u, _ := ctx.Value(userKey{}).(string)
	return m.Users[u]
}

func (m *MultiCard) CurrentUserPrincipal(ctx context.Context) (string, error) {
	if b := m.pick(ctx); b != nil {
		return b.CurrentUserPrincipal(ctx)
	}
	return "", noUser()
}
func (m *MultiCard) AddressBookHomeSetPath(ctx context.Context) (string, error) {
	if b := m.pick(ctx); b != nil {
		return b.AddressBookHomeSetPath(ctx)
	}
	return "", noUser()
}
func (m *MultiCard) ListAddressBooks(ctx context.Context) ([]carddav.AddressBook, error) {
	if b := m.pick(ctx); b != nil {
		return b.ListAddressBooks(ctx)
	}
	return nil, noUser()
}
func (m *MultiCard) GetAddressBook(ctx context.Context, path string) (*carddav.AddressBook, error) {
	if b := m.pick(ctx); b != nil {
		return b.GetAddressBook(ctx, path)
	}
	return nil, noUser()
}
func (m *MultiCard) CreateAddressBook(ctx context.Context, ab *carddav.AddressBook) error {
	if b := m.pick(ctx); b != nil {
		return b.CreateAddressBook(ctx, ab)
	}
	return noUser()
}
func (m *MultiCard) DeleteAddressBook(ctx context.Context, path string) error {
	if b := m.pick(ctx); b != nil {
		return b.DeleteAddressBook(ctx, path)
	}
	return noUser()
}
func (m *MultiCard) GetAddressObject(ctx context.Context, path string, req *carddav.AddressDataRequest) (*carddav.AddressObject, error) {
	if b := m.pick(ctx); b != nil {
		return b.GetAddressObject(ctx, path, req)
	}
	return nil, noUser()
}
func (m *MultiCard) ListAddressObjects(ctx context.Context, path string, req *carddav.AddressDataRequest) ([]carddav.AddressObject, error) {
	if b := m.pick(ctx); b != nil {
		return b.ListAddressObjects(ctx, path, req)
	}
	return nil, noUser()
}
func (m *MultiCard) QueryAddressObjects(ctx context.Context, path string, q *carddav.AddressBookQuery) ([]carddav.AddressObject, error) {
	if b := m.pick(ctx); b != nil {
		return b.QueryAddressObjects(ctx, path, q)
	}
	return nil, noUser()
}
func (m *MultiCard) PutAddressObject(ctx context.Context, path string, card vcard.Card, opts *carddav.PutAddressObjectOptions) (*carddav.AddressObject, error) {
	if b := m.pick(ctx); b != nil {
		return b.PutAddressObject(ctx, path, card, opts)
	}
	return nil, noUser()
}
func (m *MultiCard) DeleteAddressObject(ctx context.Context, path string) error {
	if b := m.pick(ctx); b != nil {
		return b.DeleteAddressObject(ctx, path)
	}
	return noUser()
}

var _ carddav.Backend = (*MultiCard)(nil)

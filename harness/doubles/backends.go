package doubles

import (
	"context"
	"fmt"
	"strings"
	"sync"

	"github.com/emersion/go-ical"
	"github.com/emersion/go-vcard"
	"github.com/emersion/go-webdav"
	"github.com/emersion/go-webdav/caldav"
	"github.com/emersion/go-webdav/carddav"
)

// Call is one recorded backend invocation.
type Call struct {
	Op   string      // method name of the backend interface
	Path string      // path argument ("" when the operation has none)
	Arg  interface{} // deep copy of the other argument (query, request, options, object)
	Arg2 interface{}
}

// Mutating reports whether the operation creates, updates or deletes.
func (c Call) Mutating() bool {
	switch c.Op {
	case "CreateCalendar", "PutCalendarObject", "DeleteCalendarObject",
		"CreateAddressBook", "DeleteAddressBook", "PutAddressObject", "DeleteAddressObject":
		return true
	}
	return false
}

type callLog struct {
	mu    sync.Mutex
	calls []Call
}

func (l *callLog) add(c Call) {
	l.mu.Lock()
	l.calls = append(l.calls, c)
	l.mu.Unlock()
}

// Calls returns the recorded calls and clears the log.
func (l *callLog) Calls() []Call {
	l.mu.Lock()
	defer l.mu.Unlock()
	c := l.calls
	l.calls = nil
	return c
}

// CalBackend is a recording caldav.Backend holding a fixed layout.
type CalBackend struct {
	callLog
	Principal string
	HomeSet   string
	// Errors to return from the principal / home-set lookups.
	PrincipalErr, HomeSetErr error

	// LenientSlash: collections are found with or without their trailing
	// slash (many real backends normalise; a handler may ask either way).
	LenientSlash bool

	mu        sync.Mutex
	Calendars []caldav.Calendar
	Objects   []caldav.CalendarObject // in listing order; Path decides membership
	// ObjErr makes GetCalendarObject(path) fail with the given error.
	ObjErr map[string]error
	// QueryResult, when non-nil, is what QueryCalendarObjects returns.
	QueryResult []caldav.CalendarObject
	// PutResult, when non-nil, is returned by PutCalendarObject.
	PutResult *caldav.CalendarObject
	PutErr    error
	CreateErr error
}

func notFound(what string) error {
	return webdav.NewHTTPError(404, fmt.Errorf("%s not found", what))
}

func (b *CalBackend) CurrentUserPrincipal(ctx context.Context) (string, error) {
	b.add(Call{Op: "CurrentUserPrincipal"})
	return b.Principal, b.PrincipalErr
}

func (b *CalBackend) CalendarHomeSetPath(ctx context.Context) (string, error) {
	b.add(Call{Op: "CalendarHomeSetPath"})
	return b.HomeSet, b.HomeSetErr
}

func (b *CalBackend) CreateCalendar(ctx context.Context, cal *caldav.Calendar) error {
	cp := *cal
	cp.SupportedComponentSet = append([]string(nil), cal.SupportedComponentSet...)
	b.add(Call{Op: "CreateCalendar", Path: cal.Path, Arg: cp})
	if b.CreateErr != nil {
		return b.CreateErr
	}
	b.mu.Lock()
	b.Calendars = append(b.Calendars, cp)
	b.mu.Unlock()
	return nil
}

func (b *CalBackend) ListCalendars(ctx context.Context) ([]caldav.Calendar, error) {
	b.add(Call{Op: "ListCalendars"})
	b.mu.Lock()
	defer b.mu.Unlock()
	return append([]caldav.Calendar(nil), b.Calendars...), nil
}

func (b *CalBackend) GetCalendar(ctx context.Context, path string) (*caldav.Calendar, error) {
	b.add(Call{Op: "GetCalendar", Path: path})
	b.mu.Lock()
	defer b.mu.Unlock()
	for _, c := range b.Calendars {
		if c.Path == path || (b.LenientSlash && strings.TrimSuffix(c.Path, "/") == strings.TrimSuffix(path, "/")) {
			c := c
			return &c, nil
		}
	}
	return nil, notFound("calendar")
}

func copyCompReq(r *caldav.CalendarCompRequest) *caldav.CalendarCompRequest {
	if r == nil {
		return nil
	}
	c := *r
	c.Props = append([]string(nil), r.Props...)
	c.Comps = nil
	for i := range r.Comps {
		c.Comps = append(c.Comps, *copyCompReq(&r.Comps[i]))
	}
	if r.Expand != nil {
		e := *r.Expand
		c.Expand = &e
	}
	return &c
}

func (b *CalBackend) GetCalendarObject(ctx context.Context, path string, req *caldav.CalendarCompRequest) (*caldav.CalendarObject, error) {
	b.add(Call{Op: "GetCalendarObject", Path: path, Arg: copyCompReq(req)})
	b.mu.Lock()
	defer b.mu.Unlock()
	if err := b.ObjErr[path]; err != nil {
		return nil, err
	}
	for _, o := range b.Objects {
		if o.Path == path {
			o := o
			return &o, nil
		}
	}
	return nil, notFound("calendar object")
}

func dirOf(p string) string {
	for i := len(p) - 1; i >= 0; i-- {
		if p[i] == '/' {
			return p[:i+1]
		}
	}
	return ""
}

func (b *CalBackend) ListCalendarObjects(ctx context.Context, path string, req *caldav.CalendarCompRequest) ([]caldav.CalendarObject, error) {
	b.add(Call{Op: "ListCalendarObjects", Path: path, Arg: copyCompReq(req)})
	b.mu.Lock()
	defer b.mu.Unlock()
	var l []caldav.CalendarObject
	for _, o := range b.Objects {
		if dirOf(o.Path) == path || dirOf(o.Path) == path+"/" {
			l = append(l, o)
		}
	}
	return l, nil
}

// CopyCalendarQuery deep-copies a query.
func CopyCalendarQuery(q *caldav.CalendarQuery) *caldav.CalendarQuery {
	if q == nil {
		return nil
	}
	c := caldav.CalendarQuery{CompRequest: *copyCompReq(&q.CompRequest), CompFilter: copyCompFilter(q.CompFilter)}
	return &c
}

func copyCompFilter(f caldav.CompFilter) caldav.CompFilter {
	c := f
	c.Props = nil
	for _, p := range f.Props {
		pc := p
		if p.TextMatch != nil {
			t := *p.TextMatch
			pc.TextMatch = &t
		}
		pc.ParamFilter = nil
		for _, pf := range p.ParamFilter {
			pfc := pf
			if pf.TextMatch != nil {
				t := *pf.TextMatch
				pfc.TextMatch = &t
			}
			pc.ParamFilter = append(pc.ParamFilter, pfc)
		}
		c.Props = append(c.Props, pc)
	}
	c.Comps = nil
	for _, cc := range f.Comps {
		c.Comps = append(c.Comps, copyCompFilter(cc))
	}
	return c
}

func (b *CalBackend) QueryCalendarObjects(ctx context.Context, path string, query *caldav.CalendarQuery) ([]caldav.CalendarObject, error) {
	b.add(Call{Op: "QueryCalendarObjects", Path: path, Arg: CopyCalendarQuery(query)})
	b.mu.Lock()
	defer b.mu.Unlock()
	if b.QueryResult != nil {
		return append([]caldav.CalendarObject(nil), b.QueryResult...), nil
	}
	var l []caldav.CalendarObject
	for _, o := range b.Objects {
		if dirOf(o.Path) == path || dirOf(o.Path) == path+"/" {
			l = append(l, o)
		}
	}
	return l, nil
}

func (b *CalBackend) PutCalendarObject(ctx context.Context, path string, cal *ical.Calendar, opts *caldav.PutCalendarObjectOptions) (*caldav.CalendarObject, error) {
	var o caldav.PutCalendarObjectOptions
	if opts != nil {
		o = *opts
	}
	b.add(Call{Op: "PutCalendarObject", Path: path, Arg: cal, Arg2: o})
	if b.PutErr != nil {
		return nil, b.PutErr
	}
	if b.PutResult != nil {
		r := *b.PutResult
		return &r, nil
	}
	return &caldav.CalendarObject{Path: path, Data: cal}, nil
}

func (b *CalBackend) DeleteCalendarObject(ctx context.Context, path string) error {
	b.add(Call{Op: "DeleteCalendarObject", Path: path})
	return nil
}

var _ caldav.Backend = (*CalBackend)(nil)

// CardBackend is a recording carddav.Backend holding a fixed layout.
type CardBackend struct {
	callLog
	Principal                string
	HomeSet                  string
	PrincipalErr, HomeSetErr error

	mu          sync.Mutex
	Books       []carddav.AddressBook
	Objects     []carddav.AddressObject
	ObjErr      map[string]error
	QueryResult []carddav.AddressObject
	PutResult   *carddav.AddressObject
	PutErr      error
	CreateErr   error
}

func (b *CardBackend) CurrentUserPrincipal(ctx context.Context) (string, error) {
	b.add(Call{Op: "CurrentUserPrincipal"})
	return b.Principal, b.PrincipalErr
}

func (b *CardBackend) AddressBookHomeSetPath(ctx context.Context) (string, error) {
	b.add(Call{Op: "AddressBookHomeSetPath"})
	return b.HomeSet, b.HomeSetErr
}

func (b *CardBackend) ListAddressBooks(ctx context.Context) ([]carddav.AddressBook, error) {
	b.add(Call{Op: "ListAddressBooks"})
	b.mu.Lock()
	defer b.mu.Unlock()
	return append([]carddav.AddressBook(nil), b.Books...), nil
}

func (b *CardBackend) GetAddressBook(ctx context.Context, path string) (*carddav.AddressBook, error) {
	b.add(Call{Op: "GetAddressBook", Path: path})
	b.mu.Lock()
	defer b.mu.Unlock()
	for _, c := range b.Books {
		if c.Path == path {
			c := c
			return &c, nil
		}
	}
	return nil, notFound("address book")
}

func (b *CardBackend) CreateAddressBook(ctx context.Context, ab *carddav.AddressBook) error {
	cp := *ab
	cp.SupportedAddressData = append([]carddav.AddressDataType(nil), ab.SupportedAddressData...)
	b.add(Call{Op: "CreateAddressBook", Path: ab.Path, Arg: cp})
	if b.CreateErr != nil {
		return b.CreateErr
	}
	b.mu.Lock()
	b.Books = append(b.Books, cp)
	b.mu.Unlock()
	return nil
}

func (b *CardBackend) DeleteAddressBook(ctx context.Context, path string) error {
	b.add(Call{Op: "DeleteAddressBook", Path: path})
	return nil
}

func copyDataReq(r *carddav.AddressDataRequest) *carddav.AddressDataRequest {
	if r == nil {
		return nil
	}
	c := *r
	c.Props = append([]string(nil), r.Props...)
	return &c
}

func (b *CardBackend) GetAddressObject(ctx context.Context, path string, req *carddav.AddressDataRequest) (*carddav.AddressObject, error) {
	b.add(Call{Op: "GetAddressObject", Path: path, Arg: copyDataReq(req)})
	b.mu.Lock()
	defer b.mu.Unlock()
	if err := b.ObjErr[path]; err != nil {
		return nil, err
	}
	for _, o := range b.Objects {
		if o.Path == path {
			o := o
			return &o, nil
		}
	}
	return nil, notFound("address object")
}

func (b *CardBackend) ListAddressObjects(ctx context.Context, path string, req *carddav.AddressDataRequest) ([]carddav.AddressObject, error) {
	b.add(Call{Op: "ListAddressObjects", Path: path, Arg: copyDataReq(req)})
	b.mu.Lock()
	defer b.mu.Unlock()
	var l []carddav.AddressObject
	for _, o := range b.Objects {
		if dirOf(o.Path) == path || dirOf(o.Path) == path+"/" {
			l = append(l, o)
		}
	}
	return l, nil
}

// CopyAddressBookQuery deep-copies a query.
func CopyAddressBookQuery(q *carddav.AddressBookQuery) *carddav.AddressBookQuery {
	if q == nil {
		return nil
	}
	c := *q
	c.DataRequest = *copyDataReq(&q.DataRequest)
	c.PropFilters = nil
	for _, pf := range q.PropFilters {
		pc := pf
		pc.TextMatches = append([]carddav.TextMatch(nil), pf.TextMatches...)
		pc.Params = nil
		for _, p := range pf.Params {
			ppc := p
			if p.TextMatch != nil {
				t := *p.TextMatch
				ppc.TextMatch = &t
			}
			pc.Params = append(pc.Params, ppc)
		}
		c.PropFilters = append(c.PropFilters, pc)
	}
	return &c
}

func (b *CardBackend) QueryAddressObjects(ctx context.Context, path string, query *carddav.AddressBookQuery) ([]carddav.AddressObject, error) {
	b.add(Call{Op: "QueryAddressObjects", Path: path, Arg: CopyAddressBookQuery(query)})
	b.mu.Lock()
	defer b.mu.Unlock()
	if b.QueryResult != nil {
		return append([]carddav.AddressObject(nil), b.QueryResult...), nil
	}
	var l []carddav.AddressObject
	for _, o := range b.Objects {
		if dirOf(o.Path) == path || dirOf(o.Path) == path+"/" {
			l = append(l, o)
		}
	}
	return l, nil
}

func (b *CardBackend) PutAddressObject(ctx context.Context, path string, card vcard.Card, opts *carddav.PutAddressObjectOptions) (*carddav.AddressObject, error) {
	var o carddav.PutAddressObjectOptions
	if opts != nil {
		o = *opts
	}
	b.add(Call{Op: "PutAddressObject", Path: path, Arg: card, Arg2: o})
	if b.PutErr != nil {
		return nil, b.PutErr
	}
	if b.PutResult != nil {
		r := *b.PutResult
		return &r, nil
	}
	return &carddav.AddressObject{Path: path, Card: card}, nil
}

func (b *CardBackend) DeleteAddressObject(ctx context.Context, path string) error {
	b.add(Call{Op: "DeleteAddressObject", Path: path})
	return nil
}

var _ carddav.Backend = (*CardBackend)(nil)

// Package doubles holds the test doubles the monitors observe through: an
// in-process HTTP client, recording CalDAV/CardDAV backends and an in-memory
// webdav.FileSystem. All doubles guard their own state with a mutex.
package doubles

import (
	"bufio"
	"bytes"
	"io"
	"io/ioutil"
	"net/http"
	"net/http/httptest"
	"sync"
)

// InProc is an HTTP client (webdav.HTTPClient and http.RoundTripper) that
// hands each request to a handler in the same process. The request crosses a
// real HTTP/1.1 serialisation (Request.Write -> http.ReadRequest), so the
// handler sees exactly what a net/http server would parse off the wire.
type InProc struct {
	Handler http.Handler

	mu  sync.Mutex
	Log []Exchange // every exchange, when Record is set
	// Record enables logging of exchanges (method, target, headers, bodies).
	Record bool
	// Shape, when set, changes how the request body is presented to the
	// handler (see ShapeBody); the request itself is the same.
	Shape string
}

// BodyShapes are the presentations ShapeBody knows besides "" (as parsed).
// All of them are legal io.Reader behaviour and legal HTTP framings of the
// same request, so no answer may depend on them.
//
//	unknown   length not announced (ContentLength -1, chunked), plain reader
//	trickle   unknown length, one byte per Read, (0, nil) for a zero-length Read
//	stutter   unknown length, (0, nil) before every delivery
//	tail-eof  known length, the last bytes come together with io.EOF (what
//	          net/http does for a body with a Content-Length)
var BodyShapes = []string{"unknown", "trickle", "stutter", "tail-eof"}

type trickleReader struct{ r io.Reader }

func (t trickleReader) Read(p []byte) (int, error) {
	if len(p) == 0 {
		return 0, nil
	}
	return t.r.Read(p[:1])
}

type stutterReader struct {
	r    io.Reader
	tick bool
}

func (s *stutterReader) Read(p []byte) (int, error) {
	s.tick = !s.tick
	if s.tick || len(p) == 0 {
		return 0, nil
	}
	return s.r.Read(p)
}

type tailEOFReader struct {
	b   []byte
	off int
}

func (t *tailEOFReader) Read(p []byte) (int, error) {
	if t.off >= len(t.b) {
		return 0, io.EOF
	}
	if len(p) == 0 {
		return 0, nil
	}
	n := copy(p, t.b[t.off:])
	t.off += n
	if t.off >= len(t.b) {
		return n, io.EOF
	}
	return n, nil
}

// ShapeBody replaces the body of a server-side request by another
// presentation of the same bytes.
func ShapeBody(sreq *http.Request, body []byte, shape string) {
	switch shape {
	case "unknown", "trickle", "stutter":
		var rd io.Reader = bytes.NewReader(body)
		if shape == "trickle" {
			rd = trickleReader{rd}
		} else if shape == "stutter" {
			rd = &stutterReader{r: rd}
		}
		sreq.Body = ioutil.NopCloser(rd)
		sreq.ContentLength = -1
		sreq.TransferEncoding = []string{"chunked"}
		sreq.Header.Del("Content-Length")
	case "tail-eof":
		sreq.Body = ioutil.NopCloser(&tailEOFReader{b: body})
		sreq.ContentLength = int64(len(body))
		sreq.TransferEncoding = nil
	}
}

// Exchange is one recorded request/response pair.
type Exchange struct {
	Method   string
	Target   string // request target as written on the wire
	Path     string // decoded path as the server saw it
	Header   http.Header
	Body     []byte
	Status   int
	RespHdr  http.Header
	RespBody []byte
}

// ServerRequest converts a client-side request into what a net/http server
// would hand to its handler.
func ServerRequest(req *http.Request) (*http.Request, error) {
	var buf bytes.Buffer
	if err := req.Write(&buf); err != nil {
		return nil, err
	}
	sreq, err := http.ReadRequest(bufio.NewReader(&buf))
	if err != nil {
		return nil, err
	}
	sreq.RemoteAddr = "127.0.0.1:1"
	sreq = sreq.WithContext(req.Context())
	return sreq, nil
}

func (c *InProc) Do(req *http.Request) (*http.Response, error) { return c.RoundTrip(req) }

func (c *InProc) RoundTrip(req *http.Request) (*http.Response, error) {
	if err := req.Context().Err(); err != nil {
		return nil, err
	}
	sreq, err := ServerRequest(req)
	if err != nil {
		return nil, err
	}
	var reqBody []byte
	if c.Record || c.Shape != "" {
		reqBody, _ = ioutil.ReadAll(sreq.Body)
		sreq.Body = ioutil.NopCloser(bytes.NewReader(reqBody))
		if c.Shape != "" {
			ShapeBody(sreq, reqBody, c.Shape)
		}
	}
	rec := httptest.NewRecorder()
	c.Handler.ServeHTTP(rec, sreq)
	resp := rec.Result()
	resp.Request = req
	if req.Method == http.MethodHead {
		resp.Body = ioutil.NopCloser(bytes.NewReader(nil))
	}
	if c.Record {
		b, _ := ioutil.ReadAll(resp.Body)
		resp.Body = ioutil.NopCloser(bytes.NewReader(b))
		c.mu.Lock()
		c.Log = append(c.Log, Exchange{Method: sreq.Method, Target: sreq.RequestURI, Path: sreq.URL.Path,
			Header: sreq.Header.Clone(), Body: reqBody, Status: resp.StatusCode, RespHdr: resp.Header.Clone(), RespBody: b})
		c.mu.Unlock()
	}
	return resp, nil
}

// Exchanges returns a copy of the log and clears it.
func (c *InProc) Exchanges() []Exchange {
	c.mu.Lock()
	defer c.mu.Unlock()
	l := c.Log
	c.Log = nil
	return l
}

// Capture is an HTTP client that records the request it is given and answers
// with a canned response.
type Capture struct {
	Status int
	Header http.Header
	Body   []byte

	mu   sync.Mutex
	Reqs []Exchange
}

func (c *Capture) Do(req *http.Request) (*http.Response, error) {
	var body []byte
	if req.Body != nil {
		body, _ = ioutil.ReadAll(req.Body)
		req.Body.Close()
	}
	c.mu.Lock()
	c.Reqs = append(c.Reqs, Exchange{Method: req.Method, Target: req.URL.RequestURI(), Path: req.URL.Path, Header: req.Header.Clone(), Body: body})
	c.mu.Unlock()
	st := c.Status
	if st == 0 {
		st = 207
	}
	h := c.Header
	if h == nil {
		h = http.Header{"Content-Type": {"application/xml; charset=utf-8"}}
	}
	b := c.Body
	if b == nil {
		b = []byte(`<?xml version="1.0"?><multistatus xmlns="DAV:"/>`)
	}
	return &http.Response{StatusCode: st, Status: http.StatusText(st), Proto: "HTTP/1.1", ProtoMajor: 1, ProtoMinor: 1,
		Header: h.Clone(), Body: ioutil.NopCloser(bytes.NewReader(b)), ContentLength: int64(len(b)), Request: req}, nil
}

// Last returns the most recent captured request.
func (c *Capture) Last() *Exchange {
	c.mu.Lock()
	defer c.mu.Unlock()
	if len(c.Reqs) == 0 {
		return nil
	}
	e := c.Reqs[len(c.Reqs)-1]
	return &e
}

var _ io.Reader = (*bytes.Buffer)(nil)

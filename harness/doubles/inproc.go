// Package doubles holds the test doubles the monitors observe through: an
// in-process HTTP client, recording CalDAV/CardDAV backends and an in-memory
// webdav.FileSystem. All doubles guard their own state with a mutex.
package doubles

import (
	"bufio"
	"bytes"
	"io"
	"io/ioutil"
	"net/http"
	"net/http/httptest"
	"sync"
)

// InProc is an HTTP client (webdav.HTTPClient and http.RoundTripper) that
// hands each request to a handler in the same process. The request crosses a
// real HTTP/1.1 serialisation (Request.Write -> http.ReadRequest), so the
// handler sees exactly what a net/http server would parse off the wire.
type InProc struct {
	Handler http.Handler

	mu  sync.Mutex
	Log []Exchange // every exchange, when Record is set
	// Record enables logging of exchanges (method, target, headers, bodies).
	Record bool
}

// Exchange is one recorded request/response pair.
type Exchange struct {
	Method   string
	Target   string // request target as written on the wire
	Path     string // decoded path as the server saw it
	Header   http.Header
	Body     []byte
	Status   int
	RespHdr  http.Header
	RespBody []byte
}

// ServerRequest converts a client-side request into what a net/http server
// would hand to its handler.
func ServerRequest(req *http.Request) (*http.Request, error) {
	var buf bytes.Buffer
	if err := req.Write(&buf); err != nil {
		return nil, err
	}
	sreq, err := http.ReadRequest(bufio.NewReader(&buf))
	if err != nil {
		return nil, err
	}
	sreq.RemoteAddr = "127.0.0.1:1"
	sreq = sreq.WithContext(req.Context())
	return sreq, nil
}

func (c *InProc) Do(req *http.Request) (*http.Response, error) { return c.RoundTrip(req) }

func (c *InProc) RoundTrip(req *http.Request) (*http.Response, error) {
	if err := req.Context().Err(); err != nil {
		return nil, err
	}
	sreq, err := ServerRequest(req)
	if err != nil {
		return nil, err
	}
	var reqBody []byte
	if c.Record {
		reqBody, _ = ioutil.ReadAll(sreq.Body)
		sreq.Body = ioutil.NopCloser(bytes.NewReader(reqBody))
	}
	rec := httptest.NewRecorder()
	c.Handler.ServeHTTP(rec, sreq)
	resp := rec.Result()
	resp.Request = req
	if req.Method == http.MethodHead {
		resp.Body = ioutil.NopCloser(bytes.NewReader(nil))
	}
	if c.Record {
		b, _ := ioutil.ReadAll(resp.Body)
		resp.Body = ioutil.NopCloser(bytes.NewReader(b))
		c.mu.Lock()
		c.Log = append(c.Log, Exchange{Method: sreq.Method, Target: sreq.RequestURI, Path: sreq.URL.Path,
			Header: sreq.Header.Clone(), Body: reqBody, Status: resp.StatusCode, RespHdr: resp.Header.Clone(), RespBody: b})
		c.mu.Unlock()
	}
	return resp, nil
}

// Exchanges returns a copy of the log and clears it.
func (c *InProc) Exchanges() []Exchange {
	c.mu.Lock()
	defer c.mu.Unlock()
	l := c.Log
	c.Log = nil
	return l
}

// Capture is an HTTP client that records the request it is given and answers
// with a canned response.
type Capture struct {
	Status int
	Header http.Header
	Body   []byte

	mu   sync.Mutex
	Reqs []Exchange
}

func (c *Capture) Do(req *http.Request) (*http.Response, error) {
	var body []byte
	if req.Body != nil {
		body, _ = ioutil.ReadAll(req.Body)
		req.Body.Close()
	}
	c.mu.Lock()
	c.Reqs = append(c.Reqs, Exchange{Method: req.Method, Target: req.URL.RequestURI(), Path: req.URL.Path, Header: req.Header.Clone(), Body: body})
	c.mu.Unlock()
	st := c.Status
	if st == 0 {
		st = 207
	}
	h := c.Header
	if h == nil {
		h = http.Header{"Content-Type": {"application/xml; charset=utf-8"}}
	}
	b := c.Body
	if b == nil {
		b = []byte(`<?xml version="1.0"?><multistatus xmlns="DAV:"/>`)
	}
	return &http.Response{StatusCode: st, Status: http.StatusText(st), Proto: "HTTP/1.1", ProtoMajor: 1, ProtoMinor: 1,
		Header: h.Clone(), Body: ioutil.NopCloser(bytes.NewReader(b)), ContentLength: int64(len(b)), Request: req}, nil
}

// Last returns the most recent captured request.
func (c *Capture) Last() *Exchange {
	c.mu.Lock()
	defer c.mu.Unlock()
	if len(c.Reqs) == 0 {
		return nil
	}
	e := c.Reqs[len(c.Reqs)-1]
	return &e
}

var _ io.Reader = (*bytes.Buffer)(nil)

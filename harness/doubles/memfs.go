package doubles

import (
	"bytes"
	"context"
	"fmt"
	"io"
	"io/ioutil"
	"sort"
	"strings"
	"sync"

	"github.com/emersion/go-webdav"
)

// MemFS is an in-memory, recording webdav.FileSystem that can hold arbitrary
// metadata (tags, MIME types, instants, sizes unrelated to content).
type MemFS struct {
	callLog
	mu    sync.Mutex
	Files map[string]*MemFile // key: path without trailing slash ("/" for the root)
	// DataErr makes Open return a reader that hands out its last bytes
	// together with io.EOF in one Read (as the io.Reader contract allows, cf.
	// iotest.DataErrReader) and that is not an io.ReadSeeker.
	DataErr bool
	// SmallReads makes Open return a reader that delivers at most 7 bytes per Read.
	SmallReads bool
}

// dataErrReader returns the final bytes together with io.EOF.
type dataErrReader struct {
	b     []byte
	chunk int
}

func (r *dataErrReader) Read(p []byte) (int, error) {
	n := len(p)
	if r.chunk > 0 && n > r.chunk {
		n = r.chunk
	}
	if n >= len(r.b) {
		n = copy(p, r.b)
		r.b = nil
		return n, io.EOF
	}
	copy(p, r.b[:n])
	r.b = r.b[n:]
	return n, nil
}

type smallReader struct{ r io.Reader }

func (s smallReader) Read(p []byte) (int, error) {
	if len(p) > 7 {
		p = p[:7]
	}
	return s.r.Read(p)
}

type MemFile struct {
	Info webdav.FileInfo
	Data []byte
}

func NewMemFS() *MemFS {
	return &MemFS{Files: map[string]*MemFile{"/": {Info: webdav.FileInfo{Path: "/", IsDir: true}}}}
}

func memKey(name string) string {
	if name != "/" {
		name = strings.TrimSuffix(name, "/")
	}
	return name
}

// Put stores an entry (Info.Path is the path the backend reports).
func (fs *MemFS) Put(info webdav.FileInfo, data []byte) {
	fs.mu.Lock()
	fs.Files[memKey(info.Path)] = &MemFile{Info: info, Data: data}
	fs.mu.Unlock()
}

func (fs *MemFS) Open(ctx context.Context, name string) (io.ReadCloser, error) {
	fs.add(Call{Op: "Open", Path: name})
	fs.mu.Lock()
	defer fs.mu.Unlock()
	f := fs.Files[memKey(name)]
	if f == nil {
		return nil, webdav.NewHTTPError(404, fmt.Errorf("not found"))
	}
	if fs.DataErr {
		chunk := 0
		if fs.SmallReads {
			chunk = 7
		}
		return ioutil.NopCloser(&dataErrReader{b: append([]byte(nil), f.Data...), chunk: chunk}), nil
	}
	if fs.SmallReads {
		return ioutil.NopCloser(smallReader{bytes.NewReader(f.Data)}), nil
	}
	return ioutil.NopCloser(bytes.NewReader(f.Data)), nil
}

func (fs *MemFS) Stat(ctx context.Context, name string) (*webdav.FileInfo, error) {
	fs.add(Call{Op: "Stat", Path: name})
	fs.mu.Lock()
	defer fs.mu.Unlock()
	f := fs.Files[memKey(name)]
	if f == nil {
		return nil, webdav.NewHTTPError(404, fmt.Errorf("not found"))
	}
	fi := f.Info
	return &fi, nil
}

func (fs *MemFS) ReadDir(ctx context.Context, name string, recursive bool) ([]webdav.FileInfo, error) {
	fs.add(Call{Op: "ReadDir", Path: name, Arg: recursive})
	fs.mu.Lock()
	defer fs.mu.Unlock()
	k := memKey(name)
	f := fs.Files[k]
	if f == nil {
		return nil, webdav.NewHTTPError(404, fmt.Errorf("not found"))
	}
	prefix := k
	if prefix != "/" {
		prefix += "/"
	}
	var keys []string
	for p := range fs.Files {
		if p == k {
			continue
		}
		if !strings.HasPrefix(p, prefix) {
			continue
		}
		rest := p[len(prefix):]
		if !recursive && strings.Contains(rest, "/") {
			continue
		}
		keys = append(keys, p)
	}
	sort.Strings(keys)
	l := []webdav.FileInfo{f.Info}
	for _, p := range keys {
		l = append(l, fs.Files[p].Info)
	}
	return l, nil
}

func (fs *MemFS) Create(ctx context.Context, name string, body io.ReadCloser, opts *webdav.CreateOptions) (*webdav.FileInfo, bool, error) {
	b, err := ioutil.ReadAll(body)
	var o webdav.CreateOptions
	if opts != nil {
		o = *opts
	}
	fs.add(Call{Op: "Create", Path: name, Arg: b, Arg2: o})
	if err != nil {
		return nil, false, err
	}
	fs.mu.Lock()
	defer fs.mu.Unlock()
	k := memKey(name)
	_, existed := fs.Files[k]
	fi := webdav.FileInfo{Path: name, Size: int64(len(b)), ETag: fmt.Sprintf("m%d", len(b))}
	fs.Files[k] = &MemFile{Info: fi, Data: b}
	return &fi, !existed, nil
}

func (fs *MemFS) RemoveAll(ctx context.Context, name string, opts *webdav.RemoveAllOptions) error {
	var o webdav.RemoveAllOptions
	if opts != nil {
		o = *opts
	}
	fs.add(Call{Op: "RemoveAll", Path: name, Arg2: o})
	fs.mu.Lock()
	defer fs.mu.Unlock()
	k := memKey(name)
	if fs.Files[k] == nil {
		return webdav.NewHTTPError(404, fmt.Errorf("not found"))
	}
	for p := range fs.Files {
		if p == k || strings.HasPrefix(p, k+"/") {
			delete(fs.Files, p)
		}
	}
	return nil
}

func (fs *MemFS) Mkdir(ctx context.Context, name string) error {
	fs.add(Call{Op: "Mkdir", Path: name})
	fs.mu.Lock()
	defer fs.mu.Unlock()
	k := memKey(name)
	if fs.Files[k] != nil {
		return webdav.NewHTTPError(405, fmt.Errorf("exists"))
	}
	fs.Files[k] = &MemFile{Info: webdav.FileInfo{Path: name, IsDir: true}}
	return nil
}

func (fs *MemFS) Copy(ctx context.Context, name, dest string, options *webdav.CopyOptions) (bool, error) {
	var o webdav.CopyOptions
	if options != nil {
		o = *options
	}
	fs.add(Call{Op: "Copy", Path: name, Arg: dest, Arg2: o})
	fs.mu.Lock()
	defer fs.mu.Unlock()
	if fs.Files[memKey(name)] == nil {
		return false, webdav.NewHTTPError(404, fmt.Errorf("not found"))
	}
	_, existed := fs.Files[memKey(dest)]
	return !existed, nil
}

func (fs *MemFS) Move(ctx context.Context, name, dest string, options *webdav.MoveOptions) (bool, error) {
	var o webdav.MoveOptions
	if options != nil {
		o = *options
	}
	fs.add(Call{Op: "Move", Path: name, Arg: dest, Arg2: o})
	fs.mu.Lock()
	defer fs.mu.Unlock()
	if fs.Files[memKey(name)] == nil {
		return false, webdav.NewHTTPError(404, fmt.Errorf("not found"))
	}
	_, existed := fs.Files[memKey(dest)]
	return !existed, nil
}

var _ webdav.FileSystem = (*MemFS)(nil)

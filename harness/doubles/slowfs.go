package doubles

import (
	"context"
	"io"

	"github.com/emersion/go-webdav"
)

// SlowFS wraps a webdav.FileSystem and runs Delay before and after every
// operation: a slow file system is legal and widens the interleavings inside
// the handler code around the file-system calls.
type SlowFS struct {
	FS    webdav.FileSystem
	Delay func()
}

func (s *SlowFS) d() {
	if s.Delay != nil {
		s.Delay()
	}
}

func (s *SlowFS) Open(ctx context.Context, name string) (io.ReadCloser, error) {
	s.d()
	defer s.d()
	return s.FS.Open(ctx, name)
}
func (s *SlowFS) Stat(ctx context.Context, name string) (*webdav.FileInfo, error) {
	s.d()
	defer s.d()
	return s.FS.Stat(ctx, name)
}
func (s *SlowFS) ReadDir(ctx context.Context, name string, recursive bool) ([]webdav.FileInfo, error) {
	s.d()
	defer s.d()
	return s.FS.ReadDir(ctx, name, recursive)
}
func (s *SlowFS) Create(ctx context.Context, name string, body io.ReadCloser, opts *webdav.CreateOptions) (*webdav.FileInfo, bool, error) {
	s.d()
	defer s.d()
	return s.FS.Create(ctx, name, body, opts)
}
func (s *SlowFS) RemoveAll(ctx context.Context, name string, opts *webdav.RemoveAllOptions) error {
	s.d()
	defer s.d()
	return s.FS.RemoveAll(ctx, name, opts)
}
func (s *SlowFS) Mkdir(ctx context.Context, name string) error {
	s.d()
	defer s.d()
	return s.FS.Mkdir(ctx, name)
}
func (s *SlowFS) Copy(ctx context.Context, name, dest string, options *webdav.CopyOptions) (bool, error) {
	s.d()
	defer s.d()
	return s.FS.Copy(ctx, name, dest, options)
}
func (s *SlowFS) Move(ctx context.Context, name, dest string, options *webdav.MoveOptions) (bool, error) {
	s.d()
	defer s.d()
	return s.FS.Move(ctx, name, dest, options)
}

var _ webdav.FileSystem = (*SlowFS)(nil)
